//! C08 — slice iterators.  Behaviour lines {kind,len,n,path,fwd,st,next,next_back}: the path rebuilds
//! the iterator (via `copy()` at every step, so independence of copies is exercised), then `next`,
//! `next_back`, `as_slice`/`remainder` are compared.
use crate::common::*;
use konst::slice as ks;
use rand::{rngs::SmallRng, Rng};
use serde_json::json;
use std::io::Write;


/// the iterators over a 2-byte element type
pub mod narrow {
    use super::*;
    pub type E = u16;
    pub const TN: &str = "";
    pub fn mk(i: usize) -> E { i as E }
    pub fn ix(e: E) -> usize { e as usize }
    include!("sliceiter_body.rs");
}
/// ... and over a 24-byte element type (element size enters every pointer computation below the safe surface)
pub mod wide {
    use super::*;
    pub type E = [u64; 3];
    pub const TN: &str = "/[u64;3]";
    pub fn mk(i: usize) -> E { [i as u64, 7, !(i as u64)] }
    pub fn ix(e: E) -> usize { e[0] as usize }
    include!("sliceiter_body.rs");
}
use narrow::big;

// ---- zero-sized element type: slices longer than isize::MAX; only lengths are observable
type Z = ();
trait ZIt<'a> {
    fn next(&self) -> Option<(usize, Box<dyn ZIt<'a> + 'a>)>;
    fn next_back(&self) -> Option<(usize, Box<dyn ZIt<'a> + 'a>)>;
    fn rev(&self) -> Box<dyn ZIt<'a> + 'a>;
    fn extra(&self) -> Option<usize>;
}
macro_rules! zit {
    ($( $fwd:ty , $rev:ty ; item $conv:expr ; extra $extra:expr ;)*) => { $(
        impl<'a> ZIt<'a> for $fwd {
            fn next(&self) -> Option<(usize, Box<dyn ZIt<'a> + 'a>)> { self.copy().next().map(|(it, n)| (($conv)(it), Box::new(n) as Box<dyn ZIt<'a> + 'a>)) }
            fn next_back(&self) -> Option<(usize, Box<dyn ZIt<'a> + 'a>)> { self.copy().next_back().map(|(it, n)| (($conv)(it), Box::new(n) as Box<dyn ZIt<'a> + 'a>)) }
            fn rev(&self) -> Box<dyn ZIt<'a> + 'a> { Box::new(self.copy().rev()) }
            fn extra(&self) -> Option<usize> { ($extra)(self) }
        }
        impl<'a> ZIt<'a> for $rev {
            fn next(&self) -> Option<(usize, Box<dyn ZIt<'a> + 'a>)> { self.copy().next().map(|(it, n)| (($conv)(it), Box::new(n) as Box<dyn ZIt<'a> + 'a>)) }
            fn next_back(&self) -> Option<(usize, Box<dyn ZIt<'a> + 'a>)> { self.copy().next_back().map(|(it, n)| (($conv)(it), Box::new(n) as Box<dyn ZIt<'a> + 'a>)) }
            fn rev(&self) -> Box<dyn ZIt<'a> + 'a> { Box::new(self.copy().rev()) }
            fn extra(&self) -> Option<usize> { None }
        }
    )* };
}
zit! {
    ks::Iter<'a, Z>, ks::IterRev<'a, Z> ; item |_it: &Z| 1usize ; extra |me: &ks::Iter<'a, Z>| Some(me.as_slice().len()) ;
    ks::IterCopied<'a, Z>, ks::IterCopiedRev<'a, Z> ; item |_it: Z| 1usize ; extra |me: &ks::IterCopied<'a, Z>| Some(me.as_slice().len()) ;
    ks::Windows<'a, Z>, ks::WindowsRev<'a, Z> ; item |it: &[Z]| it.len() ; extra |_me: &ks::Windows<'a, Z>| None ;
    ks::Chunks<'a, Z>, ks::ChunksRev<'a, Z> ; item |it: &[Z]| it.len() ; extra |_me: &ks::Chunks<'a, Z>| None ;
    ks::RChunks<'a, Z>, ks::RChunksRev<'a, Z> ; item |it: &[Z]| it.len() ; extra |_me: &ks::RChunks<'a, Z>| None ;
    ks::ChunksExact<'a, Z>, ks::ChunksExactRev<'a, Z> ; item |it: &[Z]| it.len() ; extra |me: &ks::ChunksExact<'a, Z>| Some(me.remainder().len()) ;
    ks::RChunksExact<'a, Z>, ks::RChunksExactRev<'a, Z> ; item |it: &[Z]| it.len() ; extra |me: &ks::RChunksExact<'a, Z>| Some(me.remainder().len()) ;
    ks::ArrayChunks<'a, Z, 1>, ks::ArrayChunksRev<'a, Z, 1> ; item |it: &[Z; 1]| it.len() ; extra |me: &ks::ArrayChunks<'a, Z, 1>| Some(me.remainder().len()) ;
    ks::ArrayChunks<'a, Z, 2>, ks::ArrayChunksRev<'a, Z, 2> ; item |it: &[Z; 2]| it.len() ; extra |me: &ks::ArrayChunks<'a, Z, 2>| Some(me.remainder().len()) ;
    ks::ArrayChunks<'a, Z, 3>, ks::ArrayChunksRev<'a, Z, 3> ; item |it: &[Z; 3]| it.len() ; extra |me: &ks::ArrayChunks<'a, Z, 3>| Some(me.remainder().len()) ;
    ks::ArrayChunks<'a, Z, 4>, ks::ArrayChunksRev<'a, Z, 4> ; item |it: &[Z; 4]| it.len() ; extra |me: &ks::ArrayChunks<'a, Z, 4>| Some(me.remainder().len()) ;
}

fn make_zst<'a>(kind: &str, base: &'a [Z], n: usize) -> Option<Box<dyn ZIt<'a> + 'a>> {
    Some(match kind {
        "iter" => Box::new(ks::iter(base)),
        "copied" => Box::new(ks::iter_copied(base)),
        "windows" => Box::new(ks::windows(base, n)),
        "chunks" => Box::new(ks::chunks(base, n)),
        "rchunks" => Box::new(ks::rchunks(base, n)),
        "chunks_exact" => Box::new(ks::chunks_exact(base, n)),
        "rchunks_exact" => Box::new(ks::rchunks_exact(base, n)),
        "array_chunks" => match n {
            1 => Box::new(ks::array_chunks::<Z, 1>(base)),
            2 => Box::new(ks::array_chunks::<Z, 2>(base)),
            3 => Box::new(ks::array_chunks::<Z, 3>(base)),
            4 => Box::new(ks::array_chunks::<Z, 4>(base)),
            _ => return None,
        },
        _ => panic!("unknown SliceIter kind {kind}"),
    })
}

/// the same step sequence on std's iterator of the same name (lengths only); None where std has no such iterator
fn std_zst(kind: &str, base: &[Z], n: usize, path: &[String], fwd: bool) -> Option<(Option<usize>, Option<usize>)> {
    macro_rules! drive {
        ($it:expr, $len:expr) => {{
            let mut it = $it;
            let mut f = true;
            for op in path {
                match (op.as_str(), f) {
                    ("rev", _) => f = !f,
                    ("next", true) | ("next_back", false) => { it.next()?; }
                    _ => { it.next_back()?; }
                }
            }
            let (a, b) = (it.clone().next().map($len), it.clone().next_back().map($len));
            debug_assert_eq!(f, fwd);
            Some(if f { (a, b) } else { (b, a) })
        }};
    }
    match kind {
        "iter" | "copied" => drive!(base.iter(), |_x: &Z| 1usize),
        "windows" => drive!(base.windows(n), |x: &[Z]| x.len()),
        "chunks" => drive!(base.chunks(n), |x: &[Z]| x.len()),
        "rchunks" => drive!(base.rchunks(n), |x: &[Z]| x.len()),
        "chunks_exact" | "array_chunks" => drive!(base.chunks_exact(n), |x: &[Z]| x.len()),
        "rchunks_exact" => drive!(base.rchunks_exact(n), |x: &[Z]| x.len()),
        _ => None,
    }
}

/// a record whose length is >= 100 denotes a slice of a zero-sized element type with the projected length
fn replay_zst(s: &mut Summary, v: &V) {
    use crate::m_sliceindex::p8;
    let kind = v["kind"].as_str().unwrap();
    let len = p8(v["len"].as_u64().unwrap());
    let n = big(v["n"].as_u64().unwrap() as usize);
    let base: &[Z] = unsafe { std::slice::from_raw_parts(std::ptr::NonNull::<Z>::dangling().as_ptr(), len) };
    let Some(mut it) = make_zst(kind, base, n) else { s.note("array_chunks N not instantiated (ZST)"); return };
    let path: Vec<String> = v["path"].as_array().unwrap().iter().map(|x| x.as_str().unwrap().to_string()).collect();
    for op in &path {
        let r = match op.as_str() {
            "next" => it.next().map(|x| x.1),
            "next_back" => it.next_back().map(|x| x.1),
            _ => Some(it.rev()),
        };
        match r {
            Some(n2) => it = n2,
            None => { s.monitor(&format!("{kind}/ZST path"), false, "a step of the witness path returned None on the real iterator"); return; }
        }
    }
    let fwd = v["fwd"].as_bool().unwrap();
    // expected lengths: difference of the projected window ends
    let wl = |x: &V| -> Option<usize> { x.get("some").map(|w| p8(w[1].as_u64().unwrap()).wrapping_sub(p8(w[0].as_u64().unwrap()))) };
    let (en, eb) = (wl(&v["next"]), wl(&v["next_back"]));
    // the projection of the 8-bit model onto 64-bit lengths is exact only when std agrees with it: otherwise skip
    if let Some(stdv) = std_zst(kind, base, n, &path, fwd) {
        if stdv != (en, eb) {
            s.note("ZST record skipped: the projected expectation is not exact for these numbers");
            return;
        }
    }
    let tag = format!("{kind}{}<ZST>", if fwd { "" } else { "/Rev" });
    s.check(&format!("{tag}::next (length)"), json!(it.next().map(|x| x.0)), &json!(en));
    s.check(&format!("{tag}::next_back (length)"), json!(it.next_back().map(|x| x.0)), &json!(eb));
    if let Some(e) = it.extra() {
        let st = &v["st"];
        let exp = if kind == "iter" || kind == "copied" {
            p8(st["hi"].as_u64().unwrap()).wrapping_sub(p8(st["lo"].as_u64().unwrap()))
        } else {
            p8(st["rem"][1].as_u64().unwrap()).wrapping_sub(p8(st["rem"][0].as_u64().unwrap()))
        };
        s.check(&format!("{tag}::as_slice|remainder (length)"), json!(e), &json!(exp));
    }
}

pub fn replay(s: &mut Summary, v: &V) {
    if v["len"].as_u64().unwrap() >= 100 {
        return replay_zst(s, v);
    }
    narrow::replay_sized(s, v);
    wide::replay_sized(s, v);
}

pub fn record(rng: &mut SmallRng, n_events: usize, out: &mut dyn Write) {
    // alternate the element type per recording (the events carry windows, not values)
    if rng.gen_bool(0.5) { narrow::record(rng, n_events, out) } else { wide::record(rng, n_events, out) }
}
