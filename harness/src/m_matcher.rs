//! C04 — pattern search.  Replays Matcher vectors {op,h,n,exp} into every pattern kind of the
//! string:: and slice::bytes_* functions, and records random calls for trace validation.
use crate::common::*;
use crate::{for_bytes_pats, for_str_pats};
use konst::{slice, string};
use rand::{rngs::SmallRng, Rng};
use serde_json::json;
use std::io::Write;

fn pair(o: Option<(&str, &str)>) -> V {
    opt(o, |(a, b)| json!([js(a), js(b)]))
}

pub const OPS: [&str; 10] = [
    "find", "rfind", "contains", "rcontains", "find_skip", "find_keep", "rfind_skip",
    "rfind_keep", "split_once", "rsplit_once",
];

macro_rules! str_op {
    ($op:expr, $h:expr, $p:expr) => {
        match $op {
            "find" => opt(string::find($h, $p), |x| json!(x)),
            "rfind" => opt(string::rfind($h, $p), |x| json!(x)),
            "contains" => json!(string::contains($h, $p)),
            "rcontains" => json!(string::rcontains($h, $p)),
            "find_skip" => opt(string::find_skip($h, $p), js),
            "find_keep" => opt(string::find_keep($h, $p), js),
            "rfind_skip" => opt(string::rfind_skip($h, $p), js),
            "rfind_keep" => opt(string::rfind_keep($h, $p), js),
            "split_once" => pair(string::split_once($h, $p)),
            "rsplit_once" => pair(string::rsplit_once($h, $p)),
            _ => panic!("unknown Matcher op {}", $op),
        }
    };
}

fn std_op(op: &str, h: &str, n: &str) -> V {
    match op {
        "find" => opt(h.find(n), |x| json!(x)),
        "rfind" => opt(h.rfind(n), |x| json!(x)),
        "contains" | "rcontains" => json!(h.contains(n)),
        "find_skip" => opt(h.find(n), |x| js(&h[x + n.len()..])),
        "find_keep" => opt(h.find(n), |x| js(&h[x..])),
        "rfind_skip" => opt(h.rfind(n), |x| js(&h[..x])),
        "rfind_keep" => opt(h.rfind(n), |x| js(&h[..x + n.len()])),
        "split_once" => pair(h.split_once(n)),
        "rsplit_once" => pair(h.rsplit_once(n)),
        _ => unreachable!(),
    }
}

pub fn replay(s: &mut Summary, v: &V) {
    let op = v["op"].as_str().unwrap();
    let h = bytes_of(&v["h"]);
    let n = bytes_of(&v["n"]);
    let exp = &v["exp"];

    if op != "split_once" && op != "rsplit_once" {
        for_bytes_pats!(&n, |kind, p| {
            let name = format!("slice::bytes_{op}/{kind}");
            let got = match op {
                "find" => opt(slice::bytes_find(&h, p), |x| json!(x)),
                "rfind" => opt(slice::bytes_rfind(&h, p), |x| json!(x)),
                "contains" => json!(slice::bytes_contain(&h, p)),
                "rcontains" => json!(slice::bytes_rcontain(&h, p)),
                "find_skip" => opt(slice::bytes_find_skip(&h, p), jb),
                "find_keep" => opt(slice::bytes_find_keep(&h, p), jb),
                "rfind_skip" => opt(slice::bytes_rfind_skip(&h, p), jb),
                "rfind_keep" => opt(slice::bytes_rfind_keep(&h, p), jb),
                _ => panic!("unknown Matcher op {op}"),
            };
            s.check(&name, got, exp);
            // C01 monitor: returned slices are windows of the argument
            let ok = match op {
                "find_skip" => slice::bytes_find_skip(&h, p).map_or(true, |r| inside(r, &h)),
                "find_keep" => slice::bytes_find_keep(&h, p).map_or(true, |r| inside(r, &h)),
                "rfind_skip" => slice::bytes_rfind_skip(&h, p).map_or(true, |r| inside(r, &h)),
                "rfind_keep" => slice::bytes_rfind_keep(&h, p).map_or(true, |r| inside(r, &h)),
                _ => true,
            };
            s.monitor(&name, ok, "result is a window of the argument");
        });
    }
    if let (Ok(hs), Ok(ns)) = (std::str::from_utf8(&h), std::str::from_utf8(&n)) {
        for_str_pats!(ns, |kind, p| {
            let name = format!("string::{op}/{kind}");
            s.check(&name, str_op!(op, hs, p), exp);
            let ok = match op {
                "find_skip" => string::find_skip(hs, p).map_or(true, |r| str_inside(r, hs)),
                "find_keep" => string::find_keep(hs, p).map_or(true, |r| str_inside(r, hs)),
                "rfind_skip" => string::rfind_skip(hs, p).map_or(true, |r| str_inside(r, hs)),
                "rfind_keep" => string::rfind_keep(hs, p).map_or(true, |r| str_inside(r, hs)),
                "split_once" => string::split_once(hs, p)
                    .map_or(true, |(a, b)| str_inside(a, hs) && str_inside(b, hs)),
                "rsplit_once" => string::rsplit_once(hs, p)
                    .map_or(true, |(a, b)| str_inside(a, hs) && str_inside(b, hs)),
                _ => true,
            };
            s.monitor(&name, ok, "result is a UTF-8 window of the argument");
        });
        s.guard(&format!("std::{op}"), std_op(op, hs, ns), exp);
    }
}

/// a needle whose length is near a power of two, and a haystack that contains it (or a near miss of it)
/// after a non-empty random prefix
pub fn gen_long_case(rng: &mut SmallRng) -> (String, String) {
    const LENS: [usize; 14] = [7, 8, 9, 15, 16, 17, 31, 32, 33, 34, 47, 63, 64, 65];
    let nlen = LENS[rng.gen_range(0..LENS.len())];
    let ab = |rng: &mut SmallRng, k: usize| -> String { (0..k).map(|_| if rng.gen_bool(0.5) { 'a' } else { 'b' }).collect() };
    let n = ab(rng, nlen);
    let k0 = rng.gen_range(0..=12);
    let mut h = ab(rng, k0);
    for _ in 0..rng.gen_range(1..=2) {
        match rng.gen_range(0..4) {
            0 => {
                // near miss: the needle with one character flipped
                let k = rng.gen_range(0..nlen);
                let mut m: Vec<u8> = n.clone().into_bytes();
                m[k] = if m[k] == b'a' { b'b' } else { b'a' };
                h.push_str(std::str::from_utf8(&m).unwrap());
            }
            _ => h.push_str(&n),
        }
        let k1 = rng.gen_range(0..=6);
        h.push_str(&ab(rng, k1));
    }
    (h, n)
}

/// random haystack built from fragments of the needle, so that partial matches abound
pub fn gen_case(rng: &mut SmallRng) -> (String, String) {
    let alpha: [&str; 5] = ["a", "b", "ñ", "√", ","];
    let nlen = rng.gen_range(1..=5);
    let k = rng.gen_range(1..=3usize);
    let n: String = (0..nlen).map(|_| alpha[rng.gen_range(0..k.min(alpha.len()) + 1)]).collect();
    let nchars: Vec<char> = n.chars().collect();
    let mut h = String::new();
    let target = rng.gen_range(0..=40);
    while h.len() < target {
        match rng.gen_range(0..10) {
            0..=5 => {
                // a proper prefix or suffix of the needle
                let cut = rng.gen_range(0..=nchars.len());
                if rng.gen_bool(0.5) {
                    h.extend(&nchars[..cut]);
                } else {
                    h.extend(&nchars[cut..]);
                }
            }
            6 => h.push_str(&n),
            _ => h.push_str(alpha[rng.gen_range(0..alpha.len())]),
        }
    }
    (h, n)
}

pub fn record(rng: &mut SmallRng, n_events: usize, out: &mut dyn Write) {
    let mut left = n_events;
    while left > 0 {
        let (h, n) = gen_case(rng);
        for op in OPS {
            if left == 0 {
                break;
            }
            // a one-character needle is passed as a `char` pattern half of the time
            let mut cs = n.chars();
            let single = match (cs.next(), cs.next()) { (Some(c), None) => Some(c), _ => None };
            let ret = match single {
                Some(c) if rng.gen_bool(0.5) => catch(std::panic::AssertUnwindSafe(|| str_op!(op, h.as_str(), c))),
                _ => catch(std::panic::AssertUnwindSafe(|| str_op!(op, h.as_str(), n.as_str()))),
            };
            writeln!(out, "{}", json!({"ev": op, "h": js(&h), "n": js(&n), "ret": ret})).unwrap();
            left -= 1;
        }
        // one-byte needles in haystacks of 8..40 bytes over bytes that differ in one bit (b/c, `/a, ,/-, 0/1):
        // word-at-a-time searches confuse exactly such neighbours
        if rng.gen_range(0..4) == 0 {
            let swar: [char; 8] = ['a', '`', 'b', 'c', ',', '-', '0', '1'];
            let base = rng.gen_range(0..4) * 2;
            let c = swar[base + rng.gen_range(0..2)];
            let hl = rng.gen_range(8..=40);
            let h: String = (0..hl).map(|_| match rng.gen_range(0..6) { 0 | 1 => swar[base], 2 | 3 => swar[base + 1], _ => swar[rng.gen_range(0..8)] }).collect();
            let n = c.to_string();
            for op in OPS {
                if left == 0 {
                    break;
                }
                let ret = if rng.gen_bool(0.5) { catch(std::panic::AssertUnwindSafe(|| str_op!(op, h.as_str(), c))) }
                          else { catch(std::panic::AssertUnwindSafe(|| str_op!(op, h.as_str(), n.as_str()))) };
                writeln!(out, "{}", json!({"ev": op, "h": js(&h), "n": js(&n), "ret": ret})).unwrap();
                left -= 1;
            }
        }
        // long needles (lengths around 8, 16, 32, 64 bytes) inside longer haystacks, one case in four
        if rng.gen_range(0..4) == 0 {
            let (h, n) = gen_long_case(rng);
            for op in OPS {
                if left == 0 {
                    break;
                }
                let ret = catch(std::panic::AssertUnwindSafe(|| str_op!(op, h.as_str(), n.as_str())));
                writeln!(out, "{}", json!({"ev": op, "h": js(&h), "n": js(&n), "ret": ret})).unwrap();
                left -= 1;
            }
            // the same long needle as a byte-array pattern `&[u8; N]` through the slice::bytes_* twins
            macro_rules! arr_ops { ($($N:literal),*) => { match n.len() { $( $N => {
                let a: [u8; $N] = n.as_bytes().try_into().unwrap();
                let (hb, p) = (h.as_bytes(), &a);
                for op in ["find", "rfind", "contains", "rcontains", "find_skip", "find_keep", "rfind_skip", "rfind_keep"] {
                    if left == 0 { break; }
                    let ret = catch(std::panic::AssertUnwindSafe(|| match op {
                        "find" => opt(slice::bytes_find(hb, p), |x| json!(x)),
                        "rfind" => opt(slice::bytes_rfind(hb, p), |x| json!(x)),
                        "contains" => json!(slice::bytes_contain(hb, p)),
                        "rcontains" => json!(slice::bytes_rcontain(hb, p)),
                        "find_skip" => opt(slice::bytes_find_skip(hb, p), jb),
                        "find_keep" => opt(slice::bytes_find_keep(hb, p), jb),
                        "rfind_skip" => opt(slice::bytes_rfind_skip(hb, p), jb),
                        _ => opt(slice::bytes_rfind_keep(hb, p), jb),
                    }));
                    writeln!(out, "{}", json!({"ev": op, "h": jb(hb), "n": jb(&a), "ret": ret})).unwrap();
                    left -= 1;
                }
            } )* _ => {} } } }
            arr_ops!(7, 8, 9, 15, 16, 17, 31, 32, 33, 34, 47, 63, 64, 65);
        }
        // arbitrary (non-UTF-8) bytes through the slice::bytes_* twins
        let raw: [u8; 5] = [b'a', 0x80, 0xA0, 0xC3, 0xFF];
        let k = rng.gen_range(2..=raw.len());
        let bn: Vec<u8> = (0..rng.gen_range(1..=3)).map(|_| raw[rng.gen_range(0..k)]).collect();
        let mut bh: Vec<u8> = Vec::new();
        while bh.len() < rng.gen_range(0..=24) {
            match rng.gen_range(0..4) {
                0 => bh.extend_from_slice(&bn),
                1 => bh.extend_from_slice(&bn[..rng.gen_range(0..=bn.len())]),
                _ => bh.push(raw[rng.gen_range(0..k)]),
            }
        }
        for op in ["find", "rfind", "contains", "rcontains", "find_skip", "find_keep", "rfind_skip", "rfind_keep"] {
            if left == 0 {
                break;
            }
            let (h, p) = (&bh[..], &bn[..]);
            let ret = catch(std::panic::AssertUnwindSafe(|| match op {
                "find" => opt(slice::bytes_find(h, p), |x| json!(x)),
                "rfind" => opt(slice::bytes_rfind(h, p), |x| json!(x)),
                "contains" => json!(slice::bytes_contain(h, p)),
                "rcontains" => json!(slice::bytes_rcontain(h, p)),
                "find_skip" => opt(slice::bytes_find_skip(h, p), jb),
                "find_keep" => opt(slice::bytes_find_keep(h, p), jb),
                "rfind_skip" => opt(slice::bytes_rfind_skip(h, p), jb),
                _ => opt(slice::bytes_rfind_keep(h, p), jb),
            }));
            writeln!(out, "{}", json!({"ev": op, "h": jb(h), "n": jb(p), "ret": ret})).unwrap();
            left -= 1;
        }
    }
}
