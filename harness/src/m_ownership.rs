//! C15 (containers) — ArrayConsumer / ArrayBuilder with a drop-ledger element type.
use crate::common::*;
use konst::array::{ArrayBuilder, ArrayConsumer};
use serde_json::json;
use std::cell::RefCell;
use std::mem::ManuallyDrop;
use std::io::Write as _;

thread_local! {
    /// per id (1-based): (created, dropped)
    static LEDGER: RefCell<Vec<(u32, u32)>> = RefCell::new(Vec::new());
    /// Some(k): the (k+1)-th call of L::clone from now on panics
    static CLONE_BOMB: std::cell::Cell<Option<u32>> = std::cell::Cell::new(None);
}
pub fn set_clone_bomb(k: Option<u32>) {
    CLONE_BOMB.with(|b| b.set(k));
}

/// element with identity; the payload is a function of the id (checked wherever a value is observed)
pub struct L {
    id: u32,
    payload: [u8; 12],
}
fn payload_of(id: u32) -> [u8; 12] {
    let mut p = [0u8; 12];
    for (k, b) in p.iter_mut().enumerate() {
        *b = (id as u8).wrapping_mul(31).wrapping_add(k as u8 * 7) ^ 0x5A;
    }
    p
}
impl L {
    pub fn new() -> L {
        let id = LEDGER.with(|l| {
            let mut l = l.borrow_mut();
            l.push((1, 0));
            l.len() as u32
        });
        L { id, payload: payload_of(id) }
    }
    pub fn intact(&self) -> bool {
        self.payload == payload_of(self.id)
    }
    pub fn id(&self) -> u32 {
        self.id
    }
}
impl Clone for L {
    fn clone(&self) -> L {
        CLONE_BOMB.with(|b| match b.get() {
            Some(0) => { b.set(None); panic!("L::clone bomb"); }
            Some(k) => b.set(Some(k - 1)),
            None => {}
        });
        L::new()
    }
}
impl Drop for L {
    fn drop(&mut self) {
        LEDGER.with(|l| {
            let mut l = l.borrow_mut();
            let i = self.id as usize;
            if i >= 1 && i <= l.len() {
                l[i - 1].1 += 1;
            }
        });
    }
}
pub fn ledger_reset() {
    LEDGER.with(|l| l.borrow_mut().clear());
}
pub fn ledger_snapshot() -> Vec<(u32, u32)> {
    LEDGER.with(|l| l.borrow().clone())
}

enum Obj<const N: usize> {
    C(ArrayConsumer<L, N>),
    B(ArrayBuilder<L, N>),
    None,
}

fn ids(s: &[L], ok: &mut bool) -> V {
    for x in s {
        *ok &= x.intact();
    }
    V::Array(s.iter().map(|x| json!(x.id)).collect())
}

fn run<const N: usize>(s: &mut Summary, v: &V) {
    ledger_reset();
    let mut intact = true;
    let mut caller: Vec<L> = Vec::new();
    let mut objs: [Obj<N>; 2] = [Obj::None, Obj::None];
    objs[0] = if v["start"] == json!("consumer") {
        Obj::C(ArrayConsumer::new(std::array::from_fn(|_| L::new())))
    } else if v["start"] == json!("consumer_empty") {
        Obj::C(ArrayConsumer::empty())
    } else {
        Obj::B(ArrayBuilder::new())
    };
    let ix = |nm: &V| if nm == &json!("a") { 0 } else { 1 };
    for st in v["path"].as_array().unwrap() {
        let i = ix(&st["o"]);
        let op = st["op"].as_str().unwrap();
        match op {
            "next" | "next_back" | "next_none" => {
                if let Obj::C(c) = &mut objs[i] {
                    let r: Option<ManuallyDrop<L>> = if op == "next_back" { c.next_back() } else { c.next() };
                    match (r, op) {
                        (Some(x), "next") | (Some(x), "next_back") => caller.push(ManuallyDrop::into_inner(x)),
                        (None, "next_none") => {}
                        (Some(x), _) => { caller.push(ManuallyDrop::into_inner(x)); s.monitor("ArrayConsumer::next", false, "value from an empty consumer"); }
                        (None, _) => { s.monitor("ArrayConsumer::next", false, "None from a non-empty consumer"); return; }
                    }
                } else { panic!("path: next on a non-consumer"); }
            }
            "clone" => {
                let j = 1 - i;
                let n = match &objs[i] { Obj::C(c) => Obj::C(c.clone()), Obj::B(b) => Obj::B(b.clone()), Obj::None => panic!("clone of nothing") };
                objs[j] = n;
            }
            "clone_from" => {
                let [oa, ob] = &mut objs;
                let (d, sc) = if i == 0 { (oa, &*ob) } else { (ob, &*oa) };
                match (d, sc) {
                    (Obj::C(d), Obj::C(sc)) => d.clone_from(sc),
                    (Obj::B(d), Obj::B(sc)) => d.clone_from(sc),
                    _ => panic!("path: clone_from needs two containers of one kind"),
                }
            }
            "drop" => { objs[i] = Obj::None; }
            "clone_panic" => {
                // T::clone panics part-way: the half-built clone is dropped during unwinding
                set_clone_bomb(Some(st["j"].as_u64().unwrap() as u32));
                let r = std::panic::catch_unwind(std::panic::AssertUnwindSafe(|| match &objs[i] {
                    Obj::C(c) => drop(c.clone()),
                    Obj::B(b) => drop(b.clone()),
                    Obj::None => {}
                }));
                set_clone_bomb(None);
                s.monitor("Clone with a panicking T::clone", r.is_err(), "the panic propagates");
            }
            "assert_is_empty" => {
                if let Obj::C(c) = std::mem::replace(&mut objs[i], Obj::None) { c.assert_is_empty(); }
            }
            "push" => { if let Obj::B(b) = &mut objs[i] { b.push(L::new()); } }
            "push_full" => {
                // pushing into a full builder panics; the panic is caught and the builder used further
                if let Obj::B(b) = &mut objs[i] {
                    let r = std::panic::catch_unwind(std::panic::AssertUnwindSafe(|| b.push(L::new())));
                    s.monitor("ArrayBuilder::push on a full builder", r.is_err(), "panics");
                }
            }
            "build" => {
                if let Obj::B(b) = std::mem::replace(&mut objs[i], Obj::None) { caller.extend(b.build()); }
            }
            _ => panic!("unknown Ownership op {op}"),
        }
    }
    // observation at this state
    let mut obs = |o: &mut Obj<N>, s: &mut Summary, tag: &str, exp: &V| {
        let (kind, win) = match o {
            Obj::C(c) => {
                // an empty consumer yields None from both ends (and stays empty)
                if exp["win"].as_array().unwrap().is_empty() {
                    let f = c.next();
                    let b = c.next_back();
                    s.monitor(&format!("{tag}: ArrayConsumer::next on empty"), f.is_none() && b.is_none(), "None from an empty consumer");
                    for x in [f, b].into_iter().flatten() { caller.push(ManuallyDrop::into_inner(x)); }
                }
                let a = ids(c.as_slice(), &mut intact);
                let b = ids(c.as_mut_slice(), &mut intact);
                s.check(&format!("{tag}: ArrayConsumer::as_mut_slice"), b, &exp["win"]);
                ("consumer", a)
            }
            Obj::B(bd) => {
                let a = ids(bd.as_slice(), &mut intact);
                let b = ids(bd.as_mut_slice(), &mut intact);
                s.check(&format!("{tag}: ArrayBuilder::as_mut_slice"), b, &exp["win"]);
                s.check(&format!("{tag}: ArrayBuilder::len"), json!(bd.len()), &json!(exp["win"].as_array().unwrap().len()));
                s.check(&format!("{tag}: ArrayBuilder::is_full"), json!(bd.is_full()), &json!(exp["win"].as_array().unwrap().len() == N));
                ("builder", a)
            }
            Obj::None => ("none", json!([])),
        };
        s.check(&format!("{tag}: as_slice"), json!({"kind": kind, "win": win}), exp);
    };
    let [oa, ob] = &mut objs;
    obs(oa, s, "a", &v["a"]);
    obs(ob, s, "b", &v["b"]);
    s.check("values handed to the caller (order)", ids(&caller, &mut intact), &v["handed"]);
    let snap = ledger_snapshot();
    s.check("values created", json!(snap.len()), &v["created"]);
    s.check("drop ledger at this state", V::Array(snap.iter().map(|x| json!(x.1)).collect()), &v["dropped"]);
    s.monitor("payload", intact, "every observed value is bit-for-bit what was created");
    // run to completion: drop everything; every value must now have been dropped exactly once
    drop(objs);
    drop(caller);
    let fin = ledger_snapshot();
    s.monitor("final ledger", fin.iter().all(|x| x.0 == 1 && x.1 == 1), "each value dropped exactly once overall");
}

// ---- the same behaviours with a zero-sized element type: identities are not observable, counts are
thread_local! {
    /// (created, dropped) of the zero-sized element type
    static ZLEDGER: std::cell::Cell<(u32, u32)> = std::cell::Cell::new((0, 0));
}
pub struct Z;
impl Z {
    fn new() -> Z {
        ZLEDGER.with(|c| { let (a, b) = c.get(); c.set((a + 1, b)); });
        Z
    }
}
impl Clone for Z {
    fn clone(&self) -> Z {
        CLONE_BOMB.with(|b| match b.get() {
            Some(0) => { b.set(None); panic!("Z::clone bomb"); }
            Some(k) => b.set(Some(k - 1)),
            None => {}
        });
        Z::new()
    }
}
impl Drop for Z {
    fn drop(&mut self) {
        ZLEDGER.with(|c| { let (a, b) = c.get(); c.set((a, b + 1)); });
    }
}
enum ObjZ<const N: usize> {
    C(ArrayConsumer<Z, N>),
    B(ArrayBuilder<Z, N>),
    None,
}

fn run_zst<const N: usize>(s: &mut Summary, v: &V) {
    ZLEDGER.with(|c| c.set((0, 0)));
    let mut caller: Vec<Z> = Vec::new();
    let mut objs: [ObjZ<N>; 2] = [ObjZ::None, ObjZ::None];
    objs[0] = if v["start"] == json!("consumer") {
        ObjZ::C(ArrayConsumer::new(std::array::from_fn(|_| Z::new())))
    } else if v["start"] == json!("consumer_empty") {
        ObjZ::C(ArrayConsumer::empty())
    } else {
        ObjZ::B(ArrayBuilder::new())
    };
    let ix = |nm: &V| if nm == &json!("a") { 0 } else { 1 };
    for st in v["path"].as_array().unwrap() {
        let i = ix(&st["o"]);
        let op = st["op"].as_str().unwrap();
        match op {
            "next" | "next_back" | "next_none" => {
                if let ObjZ::C(c) = &mut objs[i] {
                    let r: Option<ManuallyDrop<Z>> = if op == "next_back" { c.next_back() } else { c.next() };
                    match (r, op) {
                        (Some(x), "next") | (Some(x), "next_back") => caller.push(ManuallyDrop::into_inner(x)),
                        (None, "next_none") => {}
                        (Some(x), _) => { caller.push(ManuallyDrop::into_inner(x)); s.monitor("ArrayConsumer<ZST>::next", false, "value from an empty consumer"); }
                        (None, _) => { s.monitor("ArrayConsumer<ZST>::next", false, "None from a non-empty consumer"); return; }
                    }
                }
            }
            "clone" => {
                let n = match &objs[i] { ObjZ::C(c) => ObjZ::C(c.clone()), ObjZ::B(b) => ObjZ::B(b.clone()), ObjZ::None => ObjZ::None };
                objs[1 - i] = n;
            }
            "clone_from" => {
                let [oa, ob] = &mut objs;
                let (d, sc) = if i == 0 { (oa, &*ob) } else { (ob, &*oa) };
                match (d, sc) {
                    (ObjZ::C(d), ObjZ::C(sc)) => d.clone_from(sc),
                    (ObjZ::B(d), ObjZ::B(sc)) => d.clone_from(sc),
                    _ => panic!("path: clone_from needs two containers of one kind"),
                }
            }
            "drop" => { objs[i] = ObjZ::None; }
            "clone_panic" => {
                set_clone_bomb(Some(st["j"].as_u64().unwrap() as u32));
                let r = std::panic::catch_unwind(std::panic::AssertUnwindSafe(|| match &objs[i] {
                    ObjZ::C(c) => drop(c.clone()),
                    ObjZ::B(b) => drop(b.clone()),
                    ObjZ::None => {}
                }));
                set_clone_bomb(None);
                s.monitor("Clone<ZST> with a panicking T::clone", r.is_err(), "the panic propagates");
            }
            "assert_is_empty" => {
                if let ObjZ::C(c) = std::mem::replace(&mut objs[i], ObjZ::None) { c.assert_is_empty(); }
            }
            "push" => { if let ObjZ::B(b) = &mut objs[i] { b.push(Z::new()); } }
            "push_full" => {
                if let ObjZ::B(b) = &mut objs[i] {
                    let r = std::panic::catch_unwind(std::panic::AssertUnwindSafe(|| b.push(Z::new())));
                    s.monitor("ArrayBuilder<ZST>::push on a full builder", r.is_err(), "panics");
                }
            }
            "build" => {
                if let ObjZ::B(b) = std::mem::replace(&mut objs[i], ObjZ::None) { caller.extend(b.build()); }
            }
            _ => panic!("unknown Ownership op {op}"),
        }
    }
    for (k, tag, exp) in [(0usize, "a", &v["a"]), (1usize, "b", &v["b"])] {
        let n = match &objs[k] { ObjZ::C(c) => c.as_slice().len(), ObjZ::B(b) => b.as_slice().len(), ObjZ::None => 0 };
        s.check(&format!("{tag}/ZST: window length"), json!(n), &json!(exp["win"].as_array().unwrap().len()));
    }
    s.check("ZST: values handed to the caller (count)", json!(caller.len()), &json!(v["handed"].as_array().unwrap().len()));
    let (created, dropped) = ZLEDGER.with(|c| c.get());
    s.check("ZST: values created", json!(created), &v["created"]);
    let exp_dropped: u64 = v["dropped"].as_array().unwrap().iter().map(|x| x.as_u64().unwrap()).sum();
    s.check("ZST: number of values dropped at this state", json!(dropped), &json!(exp_dropped));
    drop(objs);
    drop(caller);
    let (created, dropped) = ZLEDGER.with(|c| c.get());
    s.monitor("ZST: final ledger", created == dropped, "each zero-sized value dropped exactly once overall");
}

// ---- the same behaviours with a Copy element type: `copy()` stands for clone, `*dst = src.copy()` for clone_from.
// Values are distinct numbers; the window every container should show is tracked next to it (push_back / pop_front /
// pop_back / copy of the source's window) and its length must be the model's.
enum ObjC<const N: usize> {
    C(ArrayConsumer<u32, N>),
    B(ArrayBuilder<u32, N>),
    None,
}
fn run_copy<const N: usize>(s: &mut Summary, v: &V) {
    use std::collections::VecDeque;
    let mut fresh = 0u32;
    let mut new = || { fresh += 1; fresh.wrapping_mul(0x9E37_79B9) };
    let mut objs: [ObjC<N>; 2] = [ObjC::None, ObjC::None];
    let mut shadow: [VecDeque<u32>; 2] = [VecDeque::new(), VecDeque::new()];
    objs[0] = if v["start"] == json!("consumer") {
        let a: [u32; N] = std::array::from_fn(|_| new());
        shadow[0] = a.iter().copied().collect();
        ObjC::C(ArrayConsumer::new(a))
    } else if v["start"] == json!("consumer_empty") {
        ObjC::C(ArrayConsumer::empty())
    } else {
        ObjC::B(ArrayBuilder::new())
    };
    let ix = |nm: &V| if nm == &json!("a") { 0 } else { 1 };
    let mut handed = 0usize;
    for st in v["path"].as_array().unwrap() {
        let i = ix(&st["o"]);
        let op = st["op"].as_str().unwrap();
        match op {
            "next" | "next_back" | "next_none" => {
                if let ObjC::C(c) = &mut objs[i] {
                    let r = if op == "next_back" { c.next_back() } else { c.next() }.map(ManuallyDrop::into_inner);
                    let e = if op == "next_back" { shadow[i].pop_back() } else { shadow[i].pop_front() };
                    handed += r.is_some() as usize;
                    s.check("ArrayConsumer<u32>::next / next_back", json!(r), &json!(e));
                }
            }
            "clone" | "clone_from" => {
                let n = match &objs[if op == "clone" { i } else { 1 - i }] { ObjC::C(c) => ObjC::C(c.copy()), ObjC::B(b) => ObjC::B(b.copy()), ObjC::None => ObjC::None };
                if op == "clone" { objs[1 - i] = n; shadow[1 - i] = shadow[i].clone(); } else { objs[i] = n; shadow[i] = shadow[1 - i].clone(); }
            }
            "drop" => { objs[i] = ObjC::None; shadow[i].clear(); }
            "clone_panic" => {}
            "assert_is_empty" => {
                if let ObjC::C(c) = std::mem::replace(&mut objs[i], ObjC::None) { c.assert_is_empty(); }
            }
            "push" => { if let ObjC::B(b) = &mut objs[i] { let x = new(); b.push(x); shadow[i].push_back(x); } }
            "push_full" => {
                if let ObjC::B(b) = &mut objs[i] {
                    let x = new();
                    let r = std::panic::catch_unwind(std::panic::AssertUnwindSafe(|| b.push(x)));
                    s.monitor("ArrayBuilder<u32>::push on a full builder", r.is_err(), "panics");
                }
            }
            "build" => {
                if let ObjC::B(b) = std::mem::replace(&mut objs[i], ObjC::None) {
                    let arr = b.build();
                    handed += N;
                    s.check("ArrayBuilder<u32>::build", json!(arr.to_vec()), &json!(shadow[i].iter().copied().collect::<Vec<_>>()));
                    shadow[i].clear();
                }
            }
            _ => panic!("unknown Ownership op {op}"),
        }
    }
    for (k, tag, exp) in [(0usize, "a", &v["a"]), (1usize, "b", &v["b"])] {
        let (win, dbg): (Vec<u32>, String) = match &objs[k] {
            ObjC::C(c) => (c.as_slice().to_vec(), format!("{:?}", c)),
            ObjC::B(b) => (b.as_slice().to_vec(), format!("{:?}", b)),
            ObjC::None => (vec![], String::new()),
        };
        s.check(&format!("{tag}/Copy: window"), json!(win), &json!(shadow[k].iter().copied().collect::<Vec<_>>()));
        s.check(&format!("{tag}/Copy: window length"), json!(win.len()), &json!(exp["win"].as_array().unwrap().len()));
        // beyond the property: the Debug output shows exactly the window
        if !dbg.is_empty() {
            s.extra(&format!("{tag}/Copy: Debug shows the window"), json!(dbg.contains(&format!("{:?}", win))), &json!(true));
        }
    }
    s.check("Copy: values handed to the caller (count)", json!(handed), &json!(v["handed"].as_array().unwrap().len()));
}

pub fn replay(s: &mut Summary, v: &V) {
    match v["n"].as_u64().unwrap() {
        0 => run_copy::<0>(s, v),
        1 => run_copy::<1>(s, v),
        2 => run_copy::<2>(s, v),
        3 => run_copy::<3>(s, v),
        4 => run_copy::<4>(s, v),
        n => panic!("unsupported N {n}"),
    }
    match v["n"].as_u64().unwrap() {
        0 => run_zst::<0>(s, v),
        1 => run_zst::<1>(s, v),
        2 => run_zst::<2>(s, v),
        3 => run_zst::<3>(s, v),
        4 => run_zst::<4>(s, v),
        n => panic!("unsupported N {n}"),
    }
    replay_sized(s, v)
}

fn replay_sized(s: &mut Summary, v: &V) {
    match v["n"].as_u64().unwrap() {
        0 => run::<0>(s, v),
        1 => run::<1>(s, v),
        2 => run::<2>(s, v),
        3 => run::<3>(s, v),
        4 => run::<4>(s, v),
        n => panic!("unsupported N {n}"),
    }
}


/// random long histories on one or two containers of capacity N; every event logs the projected state:
/// {ev:"init",scen} | {ev:op, o:"a"|"b", a:{kind,win}, b:{kind,win}, handed:[ids..], dropped:[0/1..]}
fn record_n<const N: usize>(rng: &mut rand::rngs::SmallRng, n_events: usize, out: &mut dyn std::io::Write) {
    use rand::Rng;
    let mut left = n_events;
    while left > 0 {
        ledger_reset();
        let consumer = rng.gen_bool(0.6);
        let mut caller: Vec<L> = Vec::new();
        let mut objs: [Obj<N>; 2] = [Obj::None, Obj::None];
        objs[0] = if consumer { Obj::C(ArrayConsumer::new(std::array::from_fn(|_| L::new()))) } else { Obj::B(ArrayBuilder::new()) };
        writeln!(out, "{}", json!({"ev": "init", "scen": if consumer { "consumer" } else { "builder" }})).unwrap();
        left -= 1;
        for _ in 0..rng.gen_range(1..60) {
            if left == 0 { break; }
            let i = rng.gen_range(0..2usize);
            let nm = if i == 0 { "a" } else { "b" };
            // pick an operation that is enabled in this state
            let op: &str = match &objs[i] {
                Obj::None => continue,
                Obj::C(c) => {
                    let empty = c.as_slice().is_empty();
                    match rng.gen_range(0..10) {
                        0..=3 => if empty { "next_none" } else { "next" },
                        4..=6 => if empty { "next_none" } else { "next_back" },
                        7 => if matches!(objs[1 - i], Obj::None) { "clone" } else { "clone_from" },
                        8 => if empty { "assert_is_empty" } else { "drop" },
                        _ => "drop",
                    }
                }
                Obj::B(b) => match rng.gen_range(0..10) {
                    0..=5 => if b.is_full() { "build" } else { "push" },
                    6 | 7 => if matches!(objs[1 - i], Obj::None) { "clone" } else if rng.gen_bool(0.7) { "clone_from" } else { "drop" },
                    8 => if b.is_full() { "build" } else { "drop" },
                    _ => "drop",
                },
            };
            if op == "next_none_or_skip" { continue; }
            let before = caller.len();
            let mut op_override: Option<(&str, u32)> = None;
            match op {
                "next" | "next_back" | "next_none" => if let Obj::C(c) = &mut objs[i] {
                    let r = if op == "next_back" { c.next_back() } else { c.next() };
                    if let Some(x) = r { caller.push(ManuallyDrop::into_inner(x)); }
                },
                "clone" => {
                    let wl = match &objs[i] { Obj::C(c) => c.as_slice().len(), Obj::B(b) => b.as_slice().len(), Obj::None => 0 };
                    if wl > 0 && rng.gen_bool(0.4) {
                        let j = rng.gen_range(0..wl) as u32;
                        set_clone_bomb(Some(j));
                        let _ = std::panic::catch_unwind(std::panic::AssertUnwindSafe(|| match &objs[i] {
                            Obj::C(c) => drop(c.clone()), Obj::B(b) => drop(b.clone()), Obj::None => {} }));
                        set_clone_bomb(None);
                        op_override = Some(("clone_panic", j));
                    } else {
                        let n = match &objs[i] { Obj::C(c) => Obj::C(c.clone()), Obj::B(b) => Obj::B(b.clone()), Obj::None => Obj::None }; objs[1 - i] = n;
                    }
                }
                "clone_from" => {
                    let [oa, ob] = &mut objs;
                    let (d, sc) = if i == 0 { (oa, &*ob) } else { (ob, &*oa) };
                    match (d, sc) {
                        (Obj::C(d), Obj::C(sc)) => d.clone_from(sc),
                        (Obj::B(d), Obj::B(sc)) => d.clone_from(sc),
                        _ => unreachable!(),
                    }
                }
                "drop" => { objs[i] = Obj::None; }
                "assert_is_empty" => { if let Obj::C(c) = std::mem::replace(&mut objs[i], Obj::None) { c.assert_is_empty(); } }
                "push" => { if let Obj::B(b) = &mut objs[i] { b.push(L::new()); } }
                "build" => { if let Obj::B(b) = std::mem::replace(&mut objs[i], Obj::None) { caller.extend(b.build()); } }
                _ => unreachable!(),
            }
            let mut intact = true;
            let ob = |o: &Obj<N>, intact: &mut bool| match o {
                Obj::C(c) => json!({"kind": "consumer", "win": ids(c.as_slice(), intact)}),
                Obj::B(b) => json!({"kind": "builder", "win": ids(b.as_slice(), intact)}),
                Obj::None => json!({"kind": "none", "win": []}),
            };
            let (a, b) = (ob(&objs[0], &mut intact), ob(&objs[1], &mut intact));
            let handed: Vec<u32> = caller[before..].iter().map(|x| x.id).collect();
            for x in &caller[before..] { intact &= x.intact(); }
            let snap = ledger_snapshot();
            let (op, jj) = op_override.unwrap_or((op, 0));
            writeln!(out, "{}", json!({"ev": op, "o": nm, "j": jj, "a": a, "b": b, "handed": handed,
                "dropped": snap.iter().map(|x| x.1).collect::<Vec<_>>(), "intact": intact as u8})).unwrap();
            left -= 1;
        }
    }
}
pub fn record(n: usize, rng: &mut rand::rngs::SmallRng, n_events: usize, out: &mut dyn std::io::Write) {
    use std::io::Write as _;
    match n { 5 => record_n::<5>(rng, n_events, out), _ => record_n::<8>(rng, n_events, out) }
}
