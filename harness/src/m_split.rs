//! C06 — split / rsplit / split_terminator / rsplit_terminator; &str and char delimiters.
use crate::common::*;
use konst::string as ks;
use rand::{rngs::SmallRng, Rng};
use serde_json::json;
use std::io::Write;

pub enum It<'a, 'p> {
    S(ks::Split<'a, 'p, &'p str>),
    RS(ks::RSplit<'a, 'p, &'p str>),
    C(ks::Split<'a, 'p, char>),
    RC(ks::RSplit<'a, 'p, char>),
    TS(ks::SplitTerminator<'a, 'p, &'p str>),
    TC(ks::SplitTerminator<'a, 'p, char>),
    RTS(ks::RSplitTerminator<'a, 'p, &'p str>),
    RTC(ks::RSplitTerminator<'a, 'p, char>),
}

impl<'a, 'p> It<'a, 'p> {
    pub fn new(kind: &str, s: &'a str, d: &'p str, as_char: bool) -> It<'a, 'p> {
        let c = d.chars().next().unwrap_or('x');
        match (kind, as_char) {
            ("split", false) => It::S(ks::split(s, d)),
            ("split", true) => It::C(ks::split(s, c)),
            ("rsplit", false) => It::RS(ks::rsplit(s, d)),
            ("rsplit", true) => It::RC(ks::rsplit(s, c)),
            ("split_terminator", false) => It::TS(ks::split_terminator(s, d)),
            ("split_terminator", true) => It::TC(ks::split_terminator(s, c)),
            ("rsplit_terminator", false) => It::RTS(ks::rsplit_terminator(s, d)),
            ("rsplit_terminator", true) => It::RTC(ks::rsplit_terminator(s, c)),
            _ => panic!("unknown Split kind {kind}"),
        }
    }
    pub fn next(&self) -> Option<(&'a str, It<'a, 'p>)> {
        match self {
            It::S(i) => i.copy().next().map(|(x, n)| (x, It::S(n))),
            It::RS(i) => i.copy().next().map(|(x, n)| (x, It::RS(n))),
            It::C(i) => i.copy().next().map(|(x, n)| (x, It::C(n))),
            It::RC(i) => i.copy().next().map(|(x, n)| (x, It::RC(n))),
            It::TS(i) => i.copy().next().map(|(x, n)| (x, It::TS(n))),
            It::TC(i) => i.copy().next().map(|(x, n)| (x, It::TC(n))),
            It::RTS(i) => i.copy().next().map(|(x, n)| (x, It::RTS(n))),
            It::RTC(i) => i.copy().next().map(|(x, n)| (x, It::RTC(n))),
        }
    }
    pub fn next_back(&self) -> Option<(&'a str, It<'a, 'p>)> {
        match self {
            It::S(i) => i.copy().next_back().map(|(x, n)| (x, It::S(n))),
            It::RS(i) => i.copy().next_back().map(|(x, n)| (x, It::RS(n))),
            It::C(i) => i.copy().next_back().map(|(x, n)| (x, It::C(n))),
            It::RC(i) => i.copy().next_back().map(|(x, n)| (x, It::RC(n))),
            _ => panic!("terminator iterators have no next_back"),
        }
    }
    pub fn rev(&self) -> It<'a, 'p> {
        match self {
            It::S(i) => It::RS(i.copy().rev()),
            It::RS(i) => It::S(i.copy().rev()),
            It::C(i) => It::RC(i.copy().rev()),
            It::RC(i) => It::C(i.copy().rev()),
            _ => panic!("terminator iterators have no rev"),
        }
    }
    pub fn remainder(&self) -> &'a str {
        match self {
            It::S(i) => i.remainder(),
            It::RS(i) => i.remainder(),
            It::C(i) => i.remainder(),
            It::RC(i) => i.remainder(),
            It::TS(i) => i.remainder(),
            It::TC(i) => i.remainder(),
            It::RTS(i) => i.remainder(),
            It::RTC(i) => i.remainder(),
        }
    }
}

pub fn replay(s: &mut Summary, v: &V) {
    let kind = v["kind"].as_str().unwrap();
    let sb = bytes_of(&v["s"]);
    let db = bytes_of(&v["d"]);
    let st = std::str::from_utf8(&sb).unwrap();
    let d = std::str::from_utf8(&db).unwrap();
    let one_char = d.chars().count() == 1;
    for as_char in [false, true] {
        if as_char && !one_char {
            continue;
        }
        let tag = format!("{kind}{}{}", if as_char { "/char" } else { "" }, if v["fwd"].as_bool().unwrap() { "" } else { "/Rev" });
        let mut it = It::new(kind, st, d, as_char);
        let mut ok = true;
        for op in v["path"].as_array().unwrap() {
            let r = match op.as_str().unwrap() {
                "next" => it.next().map(|x| x.1),
                "next_back" => it.next_back().map(|x| x.1),
                _ => Some(it.rev()),
            };
            match r { Some(n) => it = n, None => { ok = false; break; } }
        }
        if !ok {
            s.monitor(&format!("{tag}/path"), false, "witness path step returned None");
            continue;
        }
        if v["cn"] == json!(1) {
            s.check(&format!("{tag}::next"), opt(it.next().map(|x| x.0), js), &v["next"]);
            s.monitor(&format!("{tag}::next"), it.next().map_or(true, |x| str_inside(x.0, st)), "piece is a UTF-8 window of the input");
        }
        if v["cb"] == json!(1) {
            s.check(&format!("{tag}::next_back"), opt(it.next_back().map(|x| x.0), js), &v["next_back"]);
        }
        // remainder = the not-yet-split part (position checked when it is non-empty)
        let (lo, hi) = (v["st"]["lo"].as_u64().unwrap() as usize, v["st"]["hi"].as_u64().unwrap() as usize);
        let rem = it.remainder();
        s.check(&format!("{tag}::remainder"), js(rem), &jb(&sb[lo..hi]));
        let pos_ok = rem.is_empty() || (str_inside(rem, st) && rem.as_ptr() as usize - st.as_ptr() as usize == lo);
        s.monitor(&format!("{tag}::remainder"), pos_ok, "remainder sits where the specification says");
    }
    // std guard on initial states: complete sequences of the std iterators of the same name
    if v["path"].as_array().unwrap().is_empty() && !d.is_empty() {
        let first = |x: Option<&str>| opt(x, js);
        match kind {
            "split" => {
                s.guard("std::split.next", first(st.split(d).next()), &v["next"]);
                s.guard("std::rsplit.next", first(st.rsplit(d).next()), &v["next_back"]);
            }
            "split_terminator" => s.guard("std::split_terminator.next", first(st.split_terminator(d).next()), &v["next"]),
            _ => {}
        }
    }
}

/// random strings up to ~40 bytes, full forward / backward / (one-char) mixed histories
pub fn record(rng: &mut SmallRng, n_events: usize, out: &mut dyn Write) {
    let alpha: [&str; 11] = ["a", ",", "ñ", "b", "√", "-", "`", "\u{ffff}", "\u{7ff}", "\u{10ffff}", "\u{e000}"];
    let delims: [&str; 13] = [",", "a", ",,", "a,", "ñ", "", "aa", "√", "aa,", "a,a", "aab", "\u{ffff}", ""];
    // delimiters of 5..12 bytes (some with repeated bytes): skip-search territory
    let long_delims: [&str; 6] = ["<sep>", "</td><td>", "abcabcab", "--->--->", "a,a,a,a,b", "ñ√ñ√ñ"];
    let mut left = n_events;
    while left > 0 {
        let n = rng.gen_range(0..=20);
        let k = rng.gen_range(2..=alpha.len());
        let mut st: String = (0..n).map(|_| alpha[rng.gen_range(0..k)]).collect();
        let mut d = delims[rng.gen_range(0..delims.len())];
        if rng.gen_range(0..4) == 0 {
            // a long delimiter: at the very start / end, between short pieces, and as a near miss
            d = long_delims[rng.gen_range(0..long_delims.len())];
            st.clear();
            if rng.gen_bool(0.5) { st.push_str(d); }
            for _ in 0..rng.gen_range(0..4) {
                for _ in 0..rng.gen_range(0..4) { st.push_str(alpha[rng.gen_range(0..4)]); }
                match rng.gen_range(0..4) {
                    0 => { let cut = d.char_indices().nth(rng.gen_range(1..d.chars().count())).unwrap().0; st.push_str(&d[..cut]); }
                    _ => st.push_str(d),
                }
            }
            if rng.gen_bool(0.3) { st.push_str(alpha[rng.gen_range(0..4)]); }
        }
        let kind = ["split", "split_terminator", "rsplit_terminator"][rng.gen_range(0..3)];
        let one_char = d.chars().count() == 1;
        let as_char = one_char && rng.gen_bool(0.5);
        let mut it = It::new(kind, &st, d, as_char);
        writeln!(out, "{}", json!({"ev": "init", "kind": kind, "s": js(&st), "d": js(d)})).unwrap();
        left -= 1;
        // direction policy for multi-character / empty delimiters: a single direction
        let only_back = kind == "split" && !one_char && rng.gen_bool(0.5);
        let mut started = false;
        for _ in 0..rng.gen_range(1..30) {
            if left == 0 { break; }
            let c = rng.gen_range(0..10);
            let ev = if kind != "split" { "next" }
                     else if one_char { if c == 0 { "rev" } else if c < 6 { "next" } else { "next_back" } }
                     else if !started && c == 0 { "rev" }
                     else if only_back { "next_back" } else { "next" };
            let item = match ev {
                "rev" => { it = it.rev(); None }
                "next" => { started = true; let r = it.next(); let x = r.as_ref().map(|y| y.0); if let Some(y) = r { it = y.1; } Some(x) }
                _ => { started = true; let r = it.next_back(); let x = r.as_ref().map(|y| y.0); if let Some(y) = r { it = y.1; } Some(x) }
            };
            let (has, piece) = match item { Some(Some(p)) => (1, js(p)), _ => (0, json!([])) };
            writeln!(out, "{}", json!({"ev": ev, "has": has, "piece": piece, "rem": js(it.remainder())})).unwrap();
            left -= 1;
        }
    }
}
