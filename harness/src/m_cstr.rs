//! C20 (CStr part) — konst::ffi::cstr constructors and conversions vs the specification (and std).
use crate::common::*;
use konst::ffi::cstr as kc;
use serde_json::json;
use std::ffi::CStr;

pub fn replay(s: &mut Summary, v: &V) {
    let b = bytes_of(&v["b"]);
    let conv = |c: &CStr, s: &mut Summary, tag: &str| {
        // konst's conversions of the CStr it returned vs std's conversions of the same CStr
        s.check(&format!("{tag}/to_bytes_with_nul"), jb(kc::to_bytes_with_nul(c)), &jb(c.to_bytes_with_nul()));
        s.check(&format!("{tag}/to_bytes"), jb(kc::to_bytes(c)), &jb(c.to_bytes()));
        let ks = match kc::to_str(c) { Ok(x) => json!({"ok": js(x)}), Err(_) => json!({"err": 1}) };
        let ss = match c.to_str() { Ok(x) => json!({"ok": js(x)}), Err(_) => json!({"err": 1}) };
        s.check(&format!("{tag}/to_str"), ks, &ss);
        s.monitor(&format!("{tag}/to_bytes_with_nul"), inside(kc::to_bytes_with_nul(c), c.to_bytes_with_nul()), "bytes borrow the CStr");
    };
    let got_u = match kc::from_bytes_until_nul(&b) {
        Ok(c) => { conv(c, s, "from_bytes_until_nul"); some(jb(c.to_bytes_with_nul())) }
        Err(_) => none(),
    };
    s.check("cstr::from_bytes_until_nul", got_u, &v["until"]);
    let got_w = match kc::from_bytes_with_nul(&b) {
        Ok(c) => { conv(c, s, "from_bytes_with_nul"); some(jb(c.to_bytes_with_nul())) }
        Err(_) => none(),
    };
    s.check("cstr::from_bytes_with_nul", got_w, &v["with"]);
    s.guard("std::CStr::from_bytes_until_nul", opt(CStr::from_bytes_until_nul(&b).ok(), |c| jb(c.to_bytes_with_nul())), &v["until"]);
    s.guard("std::CStr::from_bytes_with_nul", opt(CStr::from_bytes_with_nul(&b).ok(), |c| jb(c.to_bytes_with_nul())), &v["with"]);
    // string::from_utf8 (used by to_str) against std on the raw bytes
    let kf = match konst::string::from_utf8(&b) { Ok(x) => json!({"ok": js(x)}), Err(_) => json!({"err": 1}) };
    let sf = match std::str::from_utf8(&b) { Ok(x) => json!({"ok": js(x)}), Err(_) => json!({"err": 1}) };
    s.check("string::from_utf8", kf, &sf);
}
