//! C20 (CStr part) — konst::ffi::cstr constructors and conversions vs the specification (and std).
use crate::common::*;
use konst::ffi::cstr as kc;
use serde_json::json;
use std::ffi::CStr;

pub fn replay(s: &mut Summary, v: &V) {
    let b = bytes_of(&v["b"]);
    let conv = |c: &CStr, s: &mut Summary, tag: &str| {
        // konst's conversions of the CStr it returned vs std's conversions of the same CStr
        s.check(&format!("{tag}/to_bytes_with_nul"), jb(kc::to_bytes_with_nul(c)), &jb(c.to_bytes_with_nul()));
        s.check(&format!("{tag}/to_bytes"), jb(kc::to_bytes(c)), &jb(c.to_bytes()));
        let ks = match kc::to_str(c) { Ok(x) => json!({"ok": js(x)}), Err(_) => json!({"err": 1}) };
        let ss = match c.to_str() { Ok(x) => json!({"ok": js(x)}), Err(_) => json!({"err": 1}) };
        s.check(&format!("{tag}/to_str"), ks, &ss);
        s.monitor(&format!("{tag}/to_bytes_with_nul"), inside(kc::to_bytes_with_nul(c), c.to_bytes_with_nul()), "bytes borrow the CStr");
    };
    let got_u = match kc::from_bytes_until_nul(&b) {
        Ok(c) => { conv(c, s, "from_bytes_until_nul"); some(jb(c.to_bytes_with_nul())) }
        Err(_) => none(),
    };
    s.check("cstr::from_bytes_until_nul", got_u, &v["until"]);
    let got_w = match kc::from_bytes_with_nul(&b) {
        Ok(c) => { conv(c, s, "from_bytes_with_nul"); some(jb(c.to_bytes_with_nul())) }
        Err(_) => none(),
    };
    s.check("cstr::from_bytes_with_nul", got_w, &v["with"]);
    s.guard("std::CStr::from_bytes_until_nul", opt(CStr::from_bytes_until_nul(&b).ok(), |c| jb(c.to_bytes_with_nul())), &v["until"]);
    s.guard("std::CStr::from_bytes_with_nul", opt(CStr::from_bytes_with_nul(&b).ok(), |c| jb(c.to_bytes_with_nul())), &v["with"]);
    // string::from_utf8 (used by to_str) against std on the raw bytes
    let kf = match konst::string::from_utf8(&b) { Ok(x) => json!({"ok": js(x)}), Err(_) => json!({"err": 1}) };
    let sf = match std::str::from_utf8(&b) { Ok(x) => json!({"ok": js(x)}), Err(_) => json!({"err": 1}) };
    s.check("string::from_utf8", kf, &sf);
}


/// Utf8Check vectors: from_utf8 / CStr::to_str with the complete error (valid_up_to, error_len; 0 = None)
pub fn replay_utf8(s: &mut Summary, v: &V) {
    let b = bytes_of(&v["b"]);
    let exp = &v["exp"];
    let render = |r: Result<&str, core::str::Utf8Error>| match r {
        Ok(_) => json!({"ok": true}),
        Err(e) => json!({"ok": false, "upto": e.valid_up_to(), "elen": e.error_len().unwrap_or(0)}),
    };
    s.check("string::from_utf8 (with error)", render(konst::string::from_utf8(&b).map_err(|e| e.0)), exp);
    s.guard("std::str::from_utf8 (with error)", render(std::str::from_utf8(&b)), exp);
    if !b.contains(&0) {
        let mut c = b.clone();
        c.push(0);
        let cs = CStr::from_bytes_with_nul(&c).unwrap();
        s.check("cstr::to_str (with error)", render(kc::to_str(cs).map_err(|e| e.0)), exp);
        s.guard("std CStr::to_str (with error)", render(cs.to_str()), exp);
    }
}

/// random byte strings up to 48 bytes with nuls at random places: {ev: "until_nul" | "with_nul", b, ok, c}
pub fn record(rng: &mut rand::rngs::SmallRng, n_events: usize, out: &mut dyn std::io::Write) {
    use rand::Rng;
    for k in 0..n_events {
        // rarely: 254..300 bytes whose first nul (if any) sits beyond offset 250 (a scan position kept in a u8 wraps)
        let long = rng.gen_range(0..40) == 0;
        let n = if long { [254, 255, 256, 257, 258, 300][rng.gen_range(0..6)] } else { rng.gen_range(0..48) };
        let mut b: Vec<u8> = (0..n).map(|q| if (!long && rng.gen_range(0..12) == 0) || (long && q > 250 && rng.gen_range(0..6) == 0) { 0 } else { rng.gen_range(1..=255) }).collect();
        if rng.gen_bool(0.5) { b.push(0); }
        if rng.gen_range(0..8) == 0 { b.push(0); }
        let (ev, r) = if k % 2 == 0 {
            ("until_nul", kc::from_bytes_until_nul(&b).ok().map(|c| kc::to_bytes_with_nul(c).to_vec()))
        } else {
            ("with_nul", kc::from_bytes_with_nul(&b).ok().map(|c| kc::to_bytes_with_nul(c).to_vec()))
        };
        let (ok, c) = match r { Some(x) => (1, x), None => (0, vec![]) };
        writeln!(out, "{}", json!({"ev": ev, "b": jb(&b), "ok": ok, "c": jb(&c)})).unwrap();
    }
}
