//! C09 — range iteration through konst's iteration macros.  Lines carry 8-bit model values
//! (or real code points for char); wider integer types get them through a projection that maps
//! the neighbourhoods of MIN / 0 / MAX onto each type (DESIGN §3-2).
use crate::common::*;
use konst::iter::{for_each, into_iter};
use rand::{rngs::SmallRng, Rng};
use serde_json::json;
use std::io::Write;

trait Proj: Sized + Copy + PartialEq + std::fmt::Debug {
    /// model value -> real value; None when the value is too close to a region boundary to be used
    fn proj(v: i64) -> Option<Self>;
    fn to_i(self) -> i128;
}
macro_rules! proj_u { ($($t:ty),*) => {$( impl Proj for $t {
    fn proj(v: i64) -> Option<$t> {
        if std::mem::size_of::<$t>() == 1 { return Some(v as $t); }
        if (0..=112).contains(&v) { Some(v as $t) } else if (143..=255).contains(&v) { Some(<$t>::MAX - (255 - v) as $t) } else { None }
    }
    fn to_i(self) -> i128 { self as i128 }
} )*} }
macro_rules! proj_i { ($($t:ty),*) => {$( impl Proj for $t {
    fn proj(v: i64) -> Option<$t> {
        if std::mem::size_of::<$t>() == 1 { return Some(v as $t); }
        if (-128..=-72).contains(&v) { Some(<$t>::MIN + (v + 128) as $t) }
        else if (-40..=40).contains(&v) { Some(v as $t) }
        else if (72..=127).contains(&v) { Some(<$t>::MAX - (127 - v) as $t) } else { None }
    }
    fn to_i(self) -> i128 { self as i128 }
} )*} }
proj_u!(u8, u16, u32, u64, u128, usize);
proj_i!(i8, i16, i32, i64, i128, isize);
impl Proj for char {
    fn proj(v: i64) -> Option<char> { char::from_u32(v as u32) }
    fn to_i(self) -> i128 { self as u32 as i128 }
}

fn pj<T: Proj>(x: Option<T>) -> V { opt(x, |v| json!(v.to_i().to_string())) }

/// run one emitted line on the type T
macro_rules! run_type {
    ($s:ident, $v:ident, $t:ty) => {{
        let tn = stringify!($t);
        let kind = $v["kind"].as_str().unwrap();
        let pv = |x: &V| -> Option<Option<$t>> {
            if x.get("none").is_some() { Some(None) } else { <$t as Proj>::proj(x["some"].as_i64().unwrap()).map(Some) }
        };
        if let (Some(a), Some(b), Some(en), Some(eb)) = (<$t as Proj>::proj($v["start"].as_i64().unwrap()),
                <$t as Proj>::proj($v["end"].as_i64().unwrap()), pv(&$v["next"]), pv(&$v["next_back"])) {
            let (en, eb) = (pj(en), pj(eb));
            let small = $v["small"].as_u64().unwrap() == 1;
            let seq: Option<Vec<$t>> = ints_of(&$v["seq"]).iter().map(|x| <$t as Proj>::proj(*x)).collect();
            // the projected sequence must still be contiguous (region boundaries would stretch it)
            let seq = seq.filter(|q| small && q.windows(2).all(|w| w[1].to_i() - w[0].to_i() <= 2049));
            match kind {
                "excl" => {
                    let it = into_iter!(a..b);
                    $s.check(&format!("Range<{tn}>::next"), pj(it.copy().next().map(|x| x.0)), &en);
                    $s.check(&format!("Range<{tn}>::next_back"), pj(it.copy().next_back().map(|x| x.0)), &eb);
                    $s.check(&format!("Range<{tn}>::rev().next"), pj(it.copy().rev().next().map(|x| x.0)), &eb);
                    $s.check(&format!("Range<{tn}>::rev().next_back"), pj(it.copy().rev().next_back().map(|x| x.0)), &en);
                    $s.guard(&format!("std Range<{tn}>::next"), pj((a..b).next()), &en);
                    $s.guard(&format!("std Range<{tn}>::next_back"), pj((a..b).next_back()), &eb);
                    if let Some(q) = &seq {
                        let mut f = Vec::new(); let mut i = it.copy(); while let Some((x, n)) = i.next() { f.push(x); i = n; if f.len() > 40 { break; } }
                        $s.check(&format!("Range<{tn}> forward"), json!(format!("{:?}", f)), &json!(format!("{:?}", q)));
                        let mut bk = Vec::new(); let mut i = it.copy(); while let Some((x, n)) = i.next_back() { bk.push(x); i = n; if bk.len() > 40 { break; } }
                        bk.reverse();
                        $s.check(&format!("Range<{tn}> backward"), json!(format!("{:?}", bk)), &json!(format!("{:?}", q)));
                        let mut r = Vec::new(); let mut i = it.copy().rev(); while let Some((x, n)) = i.next() { r.push(x); i = n; if r.len() > 40 { break; } }
                        r.reverse();
                        $s.check(&format!("Range<{tn}> rev"), json!(format!("{:?}", r)), &json!(format!("{:?}", q)));
                        // alternate ends
                        let (mut fr, mut ba) = (Vec::new(), Vec::new()); let mut i = it.copy(); let mut turn = true;
                        loop { let r = if turn { i.copy().next() } else { i.copy().next_back() };
                               match r { Some((x, n)) => { if turn { fr.push(x) } else { ba.push(x) }; i = n; } None => break }
                               turn = !turn; if fr.len() + ba.len() > 40 { break; } }
                        ba.reverse(); fr.extend(ba);
                        $s.check(&format!("Range<{tn}> alternating"), json!(format!("{:?}", fr)), &json!(format!("{:?}", q)));
                        let mut fe = Vec::new(); for_each!{x in a..b => fe.push(x); }
                        $s.check(&format!("for_each!(Range<{tn}>)"), json!(format!("{:?}", fe)), &json!(format!("{:?}", q)));
                        // a reference to the range is a source too (ConstIntoIter for &Range<T>)
                        let rr = a..b;
                        let mut fr = Vec::new(); for_each!{x in &rr => fr.push(x); }
                        $s.check(&format!("for_each!(&Range<{tn}>)"), json!(format!("{:?}", fr)), &json!(format!("{:?}", q)));
                        let ri = into_iter!(&rr);
                        $s.check(&format!("into_iter!(&Range<{tn}>)::next_back"), pj(ri.copy().next_back().map(|x| x.0)), &eb);
                        let mut fr2 = Vec::new(); for_each!{x in a..b, rev() => fr2.push(x); } fr2.reverse();
                        $s.check(&format!("for_each!(Range<{tn}>,rev)"), json!(format!("{:?}", fr2)), &json!(format!("{:?}", q)));
                        $s.guard(&format!("std Range<{tn}> collect"), json!(format!("{:?}", (a..b).collect::<Vec<_>>())), &json!(format!("{:?}", q)));
                    }
                }
                "incl" => {
                    let it = into_iter!(a..=b);
                    $s.check(&format!("RangeInclusive<{tn}>::next"), pj(it.copy().next().map(|x| x.0)), &en);
                    $s.check(&format!("RangeInclusive<{tn}>::next_back"), pj(it.copy().next_back().map(|x| x.0)), &eb);
                    $s.check(&format!("RangeInclusive<{tn}>::rev().next"), pj(it.copy().rev().next().map(|x| x.0)), &eb);
                    $s.check(&format!("RangeInclusive<{tn}>::rev().next_back"), pj(it.copy().rev().next_back().map(|x| x.0)), &en);
                    $s.guard(&format!("std RangeInclusive<{tn}>::next"), pj((a..=b).next()), &en);
                    $s.guard(&format!("std RangeInclusive<{tn}>::next_back"), pj((a..=b).next_back()), &eb);
                    if let Some(q) = &seq {
                        let mut f = Vec::new(); let mut i = it.copy(); while let Some((x, n)) = i.next() { f.push(x); i = n; if f.len() > 40 { break; } }
                        $s.check(&format!("RangeInclusive<{tn}> forward"), json!(format!("{:?}", f)), &json!(format!("{:?}", q)));
                        let mut bk = Vec::new(); let mut i = it.copy(); while let Some((x, n)) = i.next_back() { bk.push(x); i = n; if bk.len() > 40 { break; } }
                        bk.reverse();
                        $s.check(&format!("RangeInclusive<{tn}> backward"), json!(format!("{:?}", bk)), &json!(format!("{:?}", q)));
                        let (mut fr, mut ba) = (Vec::new(), Vec::new()); let mut i = it.copy(); let mut turn = false;
                        loop { let r = if turn { i.copy().next() } else { i.copy().next_back() };
                               match r { Some((x, n)) => { if turn { fr.push(x) } else { ba.push(x) }; i = n; } None => break }
                               turn = !turn; if fr.len() + ba.len() > 40 { break; } }
                        ba.reverse(); fr.extend(ba);
                        $s.check(&format!("RangeInclusive<{tn}> alternating"), json!(format!("{:?}", fr)), &json!(format!("{:?}", q)));
                        // exhausted iterators stay exhausted from both ends
                        let mut i = it.copy(); let mut k = 0; while let Some((_, n)) = i.copy().next() { i = n; k += 1; if k > 40 { break; } }
                        $s.monitor(&format!("RangeInclusive<{tn}> exhausted"), i.copy().next().is_none() && i.copy().next_back().is_none(), "None forever after exhaustion");
                        let mut fe = Vec::new(); for_each!{x in a..=b => fe.push(x); }
                        $s.check(&format!("for_each!(RangeInclusive<{tn}>)"), json!(format!("{:?}", fe)), &json!(format!("{:?}", q)));
                        let rr = a..=b;
                        let mut fr = Vec::new(); for_each!{x in &rr => fr.push(x); }
                        $s.check(&format!("for_each!(&RangeInclusive<{tn}>)"), json!(format!("{:?}", fr)), &json!(format!("{:?}", q)));
                        let mut fr2 = Vec::new(); for_each!{x in a..=b, rev() => fr2.push(x); } fr2.reverse();
                        $s.check(&format!("for_each!(RangeInclusive<{tn}>,rev)"), json!(format!("{:?}", fr2)), &json!(format!("{:?}", q)));
                        $s.guard(&format!("std RangeInclusive<{tn}> collect"), json!(format!("{:?}", (a..=b).collect::<Vec<_>>())), &json!(format!("{:?}", q)));
                    }
                }
                _ => {
                    // start.. : finite prefix that stays below MAX
                    let it = into_iter!(a..);
                    // start = MAX: the first step already passes the maximum (outside the property)
                    if $v["next"].get("some").is_some() {
                        $s.check(&format!("RangeFrom<{tn}>::next"), pj(it.copy().next().map(|x| x.0)), &en);
                    }
                    if let Some(q) = &seq {
                        let mut f = Vec::new(); let mut i = it.copy();
                        while f.len() < q.len() { let (x, n) = i.next().unwrap(); f.push(x); i = n; }
                        $s.check(&format!("RangeFrom<{tn}> prefix"), json!(format!("{:?}", f)), &json!(format!("{:?}", q)));
                        // konst's take(n) pulls the (n+1)-th item before it stops; when that item is T::MAX the source steps
                        // past the maximum (a debug-build overflow panic, as in std's RangeFrom::next) - outside the property
                        let pulls_max = q.last().map_or(a.to_i(), |l| l.to_i() + 1) >= <$t as Lim>::max().to_i();
                        if !pulls_max {
                            let mut fe = Vec::new(); for_each!{x in a.., take(q.len()) => fe.push(x); }
                            $s.check(&format!("for_each!(RangeFrom<{tn}>,take)"), json!(format!("{:?}", fe)), &json!(format!("{:?}", q)));
                        }
                        $s.guard(&format!("std RangeFrom<{tn}> prefix"), json!(format!("{:?}", (a..).take(q.len()).collect::<Vec<_>>())), &json!(format!("{:?}", q)));
                    }
                }
            }
        } else {
            $s.note("line skipped for a wider type (value near a projection region boundary)");
        }
    }};
}

/// konst::for_range! (integer `start..end` only): the same values as the std range, nothing for inverted ranges
macro_rules! run_for_range {
    ($s:ident, $v:ident, $($t:ty),*) => { $(
        if $v["kind"] == json!("excl") && $v["small"].as_u64().unwrap() == 1 {
            if let (Some(a), Some(b)) = (<$t as Proj>::proj($v["start"].as_i64().unwrap()), <$t as Proj>::proj($v["end"].as_i64().unwrap())) {
                let seq: Option<Vec<$t>> = ints_of(&$v["seq"]).iter().map(|x| <$t as Proj>::proj(*x)).collect();
                if let Some(q) = seq.filter(|q| q.windows(2).all(|w| w[1].to_i() - w[0].to_i() == 1)) {
                    let mut fe: Vec<$t> = Vec::new();
                    konst::for_range!{x in a..b => fe.push(x); if fe.len() > 60 { break; } }
                    $s.check(&format!("for_range!(Range<{}>)", stringify!($t)), json!(format!("{:?}", fe)), &json!(format!("{:?}", q)));
                }
            }
        }
    )* };
}

pub fn replay(s: &mut Summary, v: &V) {
    match v["ty"].as_str().unwrap() {
        "u8" => { run_for_range!(s, v, u8, u16, u32, u64, u128, usize); }
        "i8" => { run_for_range!(s, v, i8, i16, i32, i64, i128, isize); }
        _ => {}
    }
    match v["ty"].as_str().unwrap() {
        "u8" => {
            run_type!(s, v, u8); run_type!(s, v, u16); run_type!(s, v, u32);
            run_type!(s, v, u64); run_type!(s, v, u128); run_type!(s, v, usize);
        }
        "i8" => {
            run_type!(s, v, i8); run_type!(s, v, i16); run_type!(s, v, i32);
            run_type!(s, v, i64); run_type!(s, v, i128); run_type!(s, v, isize);
        }
        "char" => { run_type!(s, v, char); }
        t => panic!("unknown RangeIter type {t}"),
    }
}

/// random histories; `which` selects the element type (u16 | i16 | char), real values are logged
pub fn record(which: &str, rng: &mut SmallRng, n_events: usize, out: &mut dyn Write) {
    macro_rules! hist {
        ($t:ty, $pick:expr, $toi:expr) => {{
            let mut left = n_events;
            while left > 0 {
                let a: $t = $pick(rng); let b: $t = $pick(rng);
                let kind = ["excl", "incl", "from"][rng.gen_range(0..3)];
                writeln!(out, "{}", json!({"ev": "init", "kind": kind, "start": $toi(a), "end": $toi(b)})).unwrap();
                left -= 1;
                let steps = rng.gen_range(1..120);
                macro_rules! drive { ($it:expr) => {{
                    // F: forward type, R: the *Rev type obtained through the real rev()
                    enum E<F, R> { F(F), R(R) }
                    let mut it = E::F($it);
                    for _ in 0..steps {
                        if left == 0 { break; }
                        let c = rng.gen_range(0..10);
                        if c == 0 {
                            it = match it { E::F(i) => E::R(i.rev()), E::R(i) => E::F(i.rev()) };
                            writeln!(out, "{}", json!({"ev": "rev", "has": 0, "item": 0})).unwrap(); left -= 1; continue;
                        }
                        let ev = if c < 6 { "next" } else { "next_back" };
                        let item = match &mut it {
                            E::F(i) => { let r = if c < 6 { i.copy().next() } else { i.copy().next_back() };
                                         r.map(|(x, n)| { *i = n; x }) }
                            E::R(i) => { let r = if c < 6 { i.copy().next() } else { i.copy().next_back() };
                                         r.map(|(x, n)| { *i = n; x }) }
                        };
                        match item { Some(x) => { writeln!(out, "{}", json!({"ev": ev, "has": 1, "item": $toi(x)})).unwrap(); }
                                     None => { writeln!(out, "{}", json!({"ev": ev, "has": 0, "item": 0})).unwrap(); } }
                        left -= 1;
                    }
                }}; }
                match kind {
                    "excl" => drive!(into_iter!(a..b)),
                    "incl" => drive!(into_iter!(a..=b)),
                    _ => {
                        // stay below MAX: stepping past it is outside the property
                        let mut it = into_iter!(a..);
                        for _ in 0..steps.min(40) {
                            if left == 0 { break; }
                            let (x, n) = it.copy().next().unwrap();
                            if $toi(x) >= $toi(<$t as Lim>::max()) - 1 { break; }
                            it = n;
                            writeln!(out, "{}", json!({"ev": "next", "has": 1, "item": $toi(x)})).unwrap();
                            left -= 1;
                        }
                    }
                }
            }
        }};
    }
    match which {
        "u16" => hist!(u16, |r: &mut SmallRng| { match r.gen_range(0..4) { 0 => r.gen_range(0..40), 1 => u16::MAX - r.gen_range(0..40), 2 => 32768 - 20 + r.gen_range(0..40), _ => r.gen() } }, |x: u16| x as i64),
        "i16" => hist!(i16, |r: &mut SmallRng| { match r.gen_range(0..4) { 0 => r.gen_range(-20..20), 1 => i16::MAX - r.gen_range(0..40), 2 => i16::MIN + r.gen_range(0..40), _ => r.gen() } }, |x: i16| x as i64),
        _ => hist!(char, |r: &mut SmallRng| { let v: u32 = match r.gen_range(0..4) { 0 => r.gen_range(0..40), 1 => 0x10FFFF - r.gen_range(0..40), 2 => 0xD7FF - 20 + r.gen_range(0..21), _ => 0xE000 + r.gen_range(0..20) }; char::from_u32(v).unwrap() }, |x: char| x as u32 as i64),
    }
}
trait Lim { fn max() -> Self; }
macro_rules! lim { ($($t:ty),*) => { $( impl Lim for $t { fn max() -> $t { <$t>::MAX } } )* } }
lim!(u8, u16, u32, u64, u128, usize, i8, i16, i32, i64, i128, isize, char);
