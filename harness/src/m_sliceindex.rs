//! C02 — slice indexing / splitting / chunk and array views.  Vectors carry model (8-bit word)
//! numbers; `p8` maps them to real usize values (anchor + delta, DESIGN §3-2).
use crate::common::*;
use konst::slice;
use rand::{rngs::SmallRng, Rng};
use serde_json::{json, Value};
use std::io::Write;

pub fn p8(v: u64) -> usize {
    let v = v as usize;
    if v <= 60 {
        v
    } else if v <= 127 {
        isize::MAX as usize - (127 - v)
    } else if v <= 190 {
        isize::MAX as usize + 1 + (v - 128)
    } else {
        usize::MAX - (255 - v)
    }
}

/// apply the projection to every number of an expectation; for ZSTs offsets are unobservable
fn project(v: &V, zst: bool) -> V {
    match v {
        Value::Number(n) => json!(p8(n.as_u64().unwrap())),
        Value::Array(a) => {
            if a.len() == 2 && a[0].is_number() && a[1].is_number() {
                let n = p8(a[1].as_u64().unwrap());
                let off = if zst || n == 0 { 0 } else { p8(a[0].as_u64().unwrap()) };
                json!([off, n])
            } else {
                Value::Array(a.iter().map(|x| project(x, zst)).collect())
            }
        }
        Value::Object(o) => Value::Object(o.iter().map(|(k, x)| (k.clone(), project(x, zst))).collect()),
        _ => v.clone(),
    }
}

pub trait Elem: Sized + PartialEq + std::fmt::Debug {
    fn make(i: usize) -> Self;
}
impl Elem for u8 {
    fn make(i: usize) -> Self {
        i as u8 + 1
    }
}
impl Elem for u16 {
    fn make(i: usize) -> Self {
        1000 + i as u16
    }
}
impl Elem for [u64; 3] {
    fn make(i: usize) -> Self {
        [i as u64, 7, !(i as u64)]
    }
}
impl Elem for String {
    fn make(i: usize) -> Self {
        format!("elem-{i}")
    }
}
impl Elem for () {
    fn make(_: usize) -> Self {}
}

fn win<T>(sub: &[T], base_ptr: *const T, base_len: usize) -> V {
    let sz = std::mem::size_of::<T>();
    if sub.is_empty() {
        return json!([0, 0]);
    }
    if sz == 0 {
        return json!([0, sub.len()]);
    }
    let off = (sub.as_ptr() as usize).wrapping_sub(base_ptr as usize) / sz;
    // outside the base slice => report an impossible offset so that the comparison fails
    if (sub.as_ptr() as usize) < base_ptr as usize || off + sub.len() > base_len {
        return json!([-1, sub.len()]);
    }
    json!([off, sub.len()])
}

fn with_slice<T: Elem, R>(len: usize, f: impl FnOnce(&mut [T]) -> R) -> R {
    if std::mem::size_of::<T>() == 0 {
        // any length is a valid ZST slice
        let s: &mut [T] = unsafe { std::slice::from_raw_parts_mut(std::ptr::NonNull::<T>::dangling().as_ptr(), len) };
        f(s)
    } else {
        let mut v: Vec<T> = (0..len).map(T::make).collect();
        f(&mut v)
    }
}

macro_rules! chunks_n {
    ($f:ident, $t:ty, $s:expr, $n:expr, |$x:ident| $body:expr) => {
        match $n {
            1 => { let $x = slice::$f::<$t, 1>($s); $body }
            2 => { let $x = slice::$f::<$t, 2>($s); $body }
            3 => { let $x = slice::$f::<$t, 3>($s); $body }
            4 => { let $x = slice::$f::<$t, 4>($s); $body }
            5 => { let $x = slice::$f::<$t, 5>($s); $body }
            6 => { let $x = slice::$f::<$t, 6>($s); $body }
            7 => { let $x = slice::$f::<$t, 7>($s); $body }
            8 => { let $x = slice::$f::<$t, 8>($s); $body }
            10 => { let $x = slice::$f::<$t, 10>($s); $body }
            12 => { let $x = slice::$f::<$t, 12>($s); $body }
            _ => panic!("unsupported N"),
        }
    };
}

/// index of the element a reference points at (0 for zero-sized elements, whose addresses all coincide)
fn elem_index<T>(r: &T, base: *const T) -> V {
    let sz = std::mem::size_of::<T>();
    if sz == 0 { json!(0) } else { json!((r as *const T as usize).wrapping_sub(base as usize) / sz) }
}

fn flat<T, const N: usize>(a: &[[T; N]]) -> &[T] {
    unsafe { std::slice::from_raw_parts(a.as_ptr() as *const T, a.len() * N) }
}

pub fn run_op<T: Elem>(op: &str, len: usize, a: usize, b: usize, mutv: bool) -> V {
    with_slice::<T, V>(len, |s| {
        let bp = s.as_ptr();
        let bl = s.len();
        let w = |x: &[T]| win(x, bp, bl);
        catch(std::panic::AssertUnwindSafe(|| match (op, mutv) {
            ("get", false) => opt(slice::get(s, a), |r| {
                if std::mem::size_of::<T>() == 0 { json!(a) } else {
                    json!((r as *const T as usize - bp as usize) / std::mem::size_of::<T>()) }
            }),
            ("get", true) => opt(slice::get_mut(s, a), |r| {
                if std::mem::size_of::<T>() == 0 { json!(a) } else {
                    json!((r as *const T as usize - bp as usize) / std::mem::size_of::<T>()) }
            }),
            ("get_from", false) => opt(slice::get_from(s, a), |r| w(r)),
            ("get_from", true) => opt(slice::get_from_mut(s, a), |r| w(r)),
            ("get_up_to", false) => opt(slice::get_up_to(s, a), |r| w(r)),
            ("get_up_to", true) => opt(slice::get_up_to_mut(s, a), |r| w(r)),
            ("get_range", false) => opt(slice::get_range(s, a, b), |r| w(r)),
            ("get_range", true) => opt(slice::get_range_mut(s, a, b), |r| w(r)),
            ("slice_from", false) => w(slice::slice_from(s, a)),
            ("slice_from", true) => w(slice::slice_from_mut(s, a)),
            ("slice_up_to", false) => w(slice::slice_up_to(s, a)),
            ("slice_up_to", true) => w(slice::slice_up_to_mut(s, a)),
            ("slice_range", false) => w(slice::slice_range(s, a, b)),
            ("slice_range", true) => w(slice::slice_range_mut(s, a, b)),
            ("split_at", false) => {
                let (x, y) = slice::split_at(s, a);
                json!([w(x), w(y)])
            }
            ("split_at_mut", true) | ("split_at", true) => {
                let (x, y) = slice::split_at_mut(s, a);
                json!([w(x), w(y)])
            }
            ("split_at_mut", false) => {
                let (x, y) = slice::split_at(s, a);
                json!([w(x), w(y)])
            }
            ("as_chunks", _) => chunks_n!(as_chunks, T, s, a, |r| {
                json!({"arrs": r.0.len(), "awin": w(flat(r.0)), "rem": w(r.1)})
            }),
            ("as_rchunks", _) => chunks_n!(as_rchunks, T, s, a, |r| {
                json!({"arrs": r.1.len(), "awin": w(flat(r.1)), "rem": w(r.0)})
            }),
            ("try_into_array", false) => {
                macro_rules! tia { ($n:literal) => { match slice::try_into_array::<T, $n>(s) {
                    Ok(r) => json!({"ok": w(&r[..])}), Err(_) => json!({"err": 1}) } } }
                match a { 1 => tia!(1), 2 => tia!(2), 3 => tia!(3), 4 => tia!(4), 5 => tia!(5), 6 => tia!(6), 7 => tia!(7),
                    8 => tia!(8), 10 => tia!(10), 12 => tia!(12), _ => panic!("N") }
            }
            ("try_into_array", true) => {
                macro_rules! tia { ($n:literal) => { match slice::try_into_array_mut::<T, $n>(s) {
                    Ok(r) => json!({"ok": w(&r[..])}), Err(_) => json!({"err": 1}) } } }
                match a { 1 => tia!(1), 2 => tia!(2), 3 => tia!(3), 4 => tia!(4), 5 => tia!(5), 6 => tia!(6), 7 => tia!(7),
                    8 => tia!(8), 10 => tia!(10), 12 => tia!(12), _ => panic!("N") }
            }
            ("first_mut", _) => opt(slice::first_mut(s), |r| elem_index(r, bp)),
            ("last_mut", _) => opt(slice::last_mut(s), |r| if std::mem::size_of::<T>() == 0 { json!(bl - 1) } else { elem_index(r, bp) }),
            ("split_first_mut", _) => opt(slice::split_first_mut(s), |(x, r)| json!([elem_index(x, bp), w(r)])),
            ("split_last_mut", _) => opt(slice::split_last_mut(s), |(x, r)| {
                json!([if std::mem::size_of::<T>() == 0 { json!(bl - 1) } else { elem_index(x, bp) }, w(r)])
            }),
            _ => panic!("unknown SliceIndex op {op}"),
        }))
    })
}

/// std's answer, rendered the same way (sanity guard for the reference operators)
fn std_op(op: &str, len: usize, a: usize, b: usize) -> Option<V> {
    let v: Vec<u16> = (0..len.min(64)).map(|i| i as u16).collect();
    if len > 64 {
        return None;
    }
    let s = &v[..];
    let w = |x: &[u16]| win(x, s.as_ptr(), s.len());
    Some(match op {
        "get" => opt(s.get(a), |_| json!(a)),
        "get_from" => opt(s.get(a..), |r| w(r)),
        "get_up_to" => opt(s.get(..a), |r| w(r)),
        "get_range" => opt(s.get(a..b), |r| w(r)),
        "slice_from" => s.get(a..).map_or(json!([0, 0]), |r| w(r)),
        "slice_up_to" => s.get(..a).map_or(w(s), |r| w(r)),
        "slice_range" if a <= b && b <= len => w(&s[a..b]),
        "split_at" | "split_at_mut" if a <= len => {
            let (x, y) = s.split_at(a);
            json!([w(x), w(y)])
        }
        "try_into_array" => {
            macro_rules! tia { ($n:literal) => { match <&[u16; $n]>::try_from(s) {
                Ok(r) => json!({"ok": w(&r[..])}), Err(_) => json!({"err": 1}) } } }
            match a { 1 => tia!(1), 2 => tia!(2), 3 => tia!(3), 4 => tia!(4), 5 => tia!(5), 6 => tia!(6), 7 => tia!(7),
                8 => tia!(8), 10 => tia!(10), 12 => tia!(12), _ => return None }
        }
        "as_chunks" => {
            macro_rules! ac { ($n:literal) => {{ let (x, y) = s.as_chunks::<$n>();
                json!({"arrs": x.len(), "awin": w(flat(x)), "rem": w(y)}) }} }
            match a { 1 => ac!(1), 2 => ac!(2), 3 => ac!(3), 4 => ac!(4), 5 => ac!(5), 6 => ac!(6), 7 => ac!(7),
                8 => ac!(8), 10 => ac!(10), 12 => ac!(12), _ => return None }
        }
        "as_rchunks" => {
            macro_rules! ac { ($n:literal) => {{ let (x, y) = s.as_rchunks::<$n>();
                json!({"arrs": y.len(), "awin": w(flat(y)), "rem": w(x)}) }} }
            match a { 1 => ac!(1), 2 => ac!(2), 3 => ac!(3), 4 => ac!(4), 5 => ac!(5), 6 => ac!(6), 7 => ac!(7),
                8 => ac!(8), 10 => ac!(10), 12 => ac!(12), _ => return None }
        }
        "first_mut" => opt(s.first(), |_| json!(0)),
        "last_mut" => opt(s.last(), |_| json!(len - 1)),
        "split_first_mut" => opt(s.split_first(), |(_, r)| json!([0, w(r)])),
        "split_last_mut" => opt(s.split_last(), |(_, r)| json!([len - 1, w(r)])),
        _ => return None,
    })
}

pub fn replay(s: &mut Summary, v: &V) {
    let op = v["op"].as_str().unwrap();
    let zst = v["zst"].as_u64().unwrap() == 1;
    let nop = matches!(op, "as_chunks" | "as_rchunks" | "try_into_array");
    let len = p8(v["len"].as_u64().unwrap());
    let (a, b) = if nop {
        (v["a"].as_u64().unwrap() as usize, 0)
    } else {
        (p8(v["a"].as_u64().unwrap()), p8(v["b"].as_u64().unwrap()))
    };
    let exp = project(&v["exp"], zst);
    for mutv in [false, true] {
        let tag = if mutv { "_mut" } else { "" };
        if zst {
            s.check(&format!("slice::{op}{tag}/()"), run_op::<()>(op, len, a, b, mutv), &exp);
        } else {
            s.check(&format!("slice::{op}{tag}/u8"), run_op::<u8>(op, len, a, b, mutv), &exp);
            s.check(&format!("slice::{op}{tag}/u16"), run_op::<u16>(op, len, a, b, mutv), &exp);
            s.check(&format!("slice::{op}{tag}/[u64;3]"), run_op::<[u64; 3]>(op, len, a, b, mutv), &exp);
            s.check(&format!("slice::{op}{tag}/String"), run_op::<String>(op, len, a, b, mutv), &exp);
        }
    }
    if !zst {
        if let Some(stdv) = std_op(op, len, a, b) {
            s.guard(&format!("std::{op}"), stdv, &exp);
        }
    }
}

/// events {ev, len, a, b, ret} on u16 slices; numbers are real values <= 255 (the trace spec runs W=16)
pub fn record(rng: &mut SmallRng, n_events: usize, out: &mut dyn Write) {
    const NS: [usize; 10] = [1, 2, 3, 4, 5, 6, 7, 8, 10, 12];
    const OPS: [&str; 16] = ["first_mut", "last_mut", "split_first_mut", "split_last_mut", "get", "get_from", "get_up_to", "get_range", "slice_from", "slice_up_to",
        "slice_range", "split_at", "split_at_mut", "as_chunks", "as_rchunks", "try_into_array"];
    for _ in 0..n_events {
        let op = OPS[rng.gen_range(0..OPS.len())];
        let len = if rng.gen_range(0..10) == 0 { [254usize, 255, 256, 257, 258, 300, 513, 600][rng.gen_range(0..8)] } else { rng.gen_range(0..=200usize) };
        let nop = matches!(op, "as_chunks" | "as_rchunks" | "try_into_array");
        let pick = |rng: &mut SmallRng| -> usize {
            match rng.gen_range(0..10) {
                0..=5 => rng.gen_range(0..=len + 2),
                6 => len,
                7 => 65535 - rng.gen_range(0..3),
                8 => 32767 + rng.gen_range(0..3),
                _ => rng.gen_range(0..=300),
            }
        };
        let (a, b) = if nop { (NS[rng.gen_range(0..NS.len())], 0) } else if op.ends_with("st_mut") { (0, 0) } else { (pick(rng), pick(rng)) };
        // 16-bit model word -> real usize: values near 2^15 / 2^16 stand for isize::MAX / usize::MAX
        let real = |x: usize| -> usize {
            if nop || x < 20000 { x } else if x <= 32767 { isize::MAX as usize - (32767 - x) }
            else if x < 50000 { isize::MAX as usize + 1 + (x - 32768) } else { usize::MAX - (65535 - x) }
        };
        let mutv = op == "split_at_mut" || rng.gen_bool(0.3);
        let ret = run_op::<u16>(op, len, real(a), real(b), mutv);
        writeln!(out, "{}", json!({"ev": op, "len": len, "a": a, "b": b, "ret": ret})).unwrap();
    }
}
