//! C03 — string slicing with char-boundary rules.
use crate::common::*;
use crate::m_sliceindex::p8;
use konst::string;
use rand::{rngs::SmallRng, Rng};
use serde_json::json;
use std::io::Write;

pub fn run_op(op: &str, s: &str, a: usize, b: usize) -> (V, bool) {
    let mut mon = true;
    let v = catch(std::panic::AssertUnwindSafe(|| match op {
        "is_char_boundary" => json!(string::is_char_boundary(s, a)),
        "get_from" => opt(string::get_from(s, a), |r| { mon &= str_inside(r, s); js(r) }),
        "get_up_to" => opt(string::get_up_to(s, a), |r| { mon &= str_inside(r, s); js(r) }),
        "get_range" => opt(string::get_range(s, a, b), |r| { mon &= str_inside(r, s); js(r) }),
        "str_from" => { let r = string::str_from(s, a); mon &= str_inside(r, s); js(r) }
        "str_up_to" => { let r = string::str_up_to(s, a); mon &= str_inside(r, s); js(r) }
        "str_range" => { let r = string::str_range(s, a, b); mon &= str_inside(r, s); js(r) }
        "split_at" => {
            let (x, y) = string::split_at(s, a);
            mon &= str_inside(x, s) && str_inside(y, s);
            json!([js(x), js(y)])
        }
        _ => panic!("unknown StrIndex op {op}"),
    }));
    (v, mon)
}

fn std_op(op: &str, s: &str, a: usize, b: usize) -> Option<V> {
    let inr = |i: usize| i <= s.len();
    Some(match op {
        "is_char_boundary" => json!(s.is_char_boundary(a)),
        "get_from" => opt(s.get(a..), js),
        "get_up_to" => opt(s.get(..a), js),
        "get_range" => opt(s.get(a..b), js),
        // std only defines the clamping functions where the indices are in range and ordered
        "str_from" if inr(a) => catch(|| js(&s[a..])),
        "str_up_to" if inr(a) => catch(|| js(&s[..a])),
        "str_range" if inr(a) && inr(b) && a <= b => catch(|| js(&s[a..b])),
        "split_at" if inr(a) => catch(|| { let (x, y) = s.split_at(a); json!([js(x), js(y)]) }),
        _ => return None,
    })
}

pub fn replay(s: &mut Summary, v: &V) {
    let op = v["op"].as_str().unwrap();
    let bytes = bytes_of(&v["s"]);
    let st = std::str::from_utf8(&bytes).expect("StrIndex vectors are valid UTF-8");
    let a = p8(v["a"].as_u64().unwrap());
    let b = p8(v["b"].as_u64().unwrap());
    let (got, mon) = run_op(op, st, a, b);
    s.check(&format!("string::{op}"), got, &v["exp"]);
    s.monitor(&format!("string::{op}"), mon, "result is a UTF-8 window of the argument");
    if let Some(stdv) = std_op(op, st, a, b) {
        s.guard(&format!("std::{op}"), stdv, &v["exp"]);
    }
}

pub fn record(rng: &mut SmallRng, n_events: usize, out: &mut dyn Write) {
    const OPS: [&str; 8] = ["is_char_boundary", "get_from", "get_up_to", "get_range", "str_from",
        "str_up_to", "str_range", "split_at"];
    let alpha: [&str; 7] = ["a", "ñ", "√", "🦀", "\u{800}", "\u{7ff}", "\u{ffff}"];
    for _ in 0..n_events {
        let op = OPS[rng.gen_range(0..OPS.len())];
        let n = rng.gen_range(0..=14);
        let st: String = (0..n).map(|_| alpha[rng.gen_range(0..alpha.len())]).collect();
        let len = st.len();
        let pick = |rng: &mut SmallRng| -> u64 {
            match rng.gen_range(0..10) {
                0..=6 => rng.gen_range(0..=len as u64 + 2),
                7 => len as u64,
                8 => [126u64, 127, 128, 129][rng.gen_range(0..4)],
                _ => [254u64, 255][rng.gen_range(0..2)],
            }
        };
        let (a, b) = (pick(rng), pick(rng));
        // model numbers above 60 denote the isize::MAX / usize::MAX neighbourhoods
        if (a > 60 && a <= len as u64 + 2) || (b > 60 && b <= len as u64 + 2) {
            continue;
        }
        let (ret, _) = run_op(op, &st, p8(a), p8(b));
        writeln!(out, "{}", json!({"ev": op, "s": js(&st), "a": a, "b": b, "ret": ret})).unwrap();
    }
}
