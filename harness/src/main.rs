//! kh — conformance harness binding the TLA+ specification to the konst implementation.
//!   kh replay <file.ndjson>                      spec -> impl (TLC-emitted vectors / behaviours)
//!   kh record <Module> <seed> <n_events> <out>   impl -> spec (events for trace validation)
mod common;
mod m_matcher;
mod m_striptrim;
mod m_sliceindex;
mod m_strindex;
mod m_parser;
mod m_cmp;
mod m_sliceiter;
mod m_chars;
mod m_rangeiter;
mod m_split;
mod m_parseint;
mod m_cstr;
mod m_ownership;
mod m_mem;

use common::*;
use rand::{rngs::SmallRng, SeedableRng};
use std::io::{BufRead, BufReader, BufWriter, Write};

fn replay_line(s: &mut Summary, v: &V) {
    match v["m"].as_str().unwrap_or("?") {
        "Matcher" => m_matcher::replay(s, v),
        "StripTrim" => m_striptrim::replay(s, v),
        "SliceIndex" => m_sliceindex::replay(s, v),
        "StrIndex" => m_strindex::replay(s, v),
        "Parser" => m_parser::replay(s, v),
        "Cmp" => m_cmp::replay(s, v),
        "SliceIter" => m_sliceiter::replay(s, v),
        "Chars" => m_chars::replay(s, v),
        "RangeIter" => m_rangeiter::replay(s, v),
        "Split" => m_split::replay(s, v),
        "ParseInt" => m_parseint::replay(s, v),
        "CStr" => m_cstr::replay(s, v),
        "Utf8Check" => m_cstr::replay_utf8(s, v),
        "Ownership" => m_ownership::replay(s, v),
        "Mem" => m_mem::replay(s, v),
        m => panic!("kh: unknown module {m}"),
    }
}

fn main() {
    let args: Vec<String> = std::env::args().collect();
    // the code under test may panic; that is data, keep the output clean
    std::panic::set_hook(Box::new(|_| {}));
    match args.get(1).map(|s| s.as_str()) {
        Some("replay") => {
            let mut s = Summary::default();
            let progress = std::env::var("KH_PROGRESS").is_ok();
            for path in &args[2..] {
                let f = BufReader::new(std::fs::File::open(path).expect("open vector file"));
                for line in f.lines() {
                    let line = line.unwrap();
                    if line.trim().is_empty() {
                        continue;
                    }
                    let v: V = serde_json::from_str(&line).expect("vector line is JSON");
                    s.lines += 1;
                    s.cur_line = s.lines;
                    s.cur = v.clone();
                    if progress {
                        eprintln!("KH-LINE {line}");
                    }
                    let r = std::panic::catch_unwind(std::panic::AssertUnwindSafe(|| replay_line(&mut s, &v)));
                    if r.is_err() {
                        s.monitor("panic", false, "the code under test panicked where the specification expects a value");
                    }
                }
            }
            s.cur = V::Null;
            println!("{}", s.to_json());
        }
        Some("record") => {
            let module = args[2].as_str();
            let seed: u64 = args[3].parse().expect("seed");
            let n: usize = args[4].parse().expect("n_events");
            let mut out = BufWriter::new(std::fs::File::create(&args[5]).expect("create trace"));
            let mut rng = SmallRng::seed_from_u64(seed);
            // a panic of the code under test while a history is being recorded is an observation:
            // it is logged as a final {"ev":"panic"} event, which no action of a trace spec accepts
            let r = std::panic::catch_unwind(std::panic::AssertUnwindSafe(|| {
            match module {
                "Matcher" => m_matcher::record(&mut rng, n, &mut out),
                "StripTrim" => m_striptrim::record(&mut rng, n, &mut out),
                "SliceIndex" => m_sliceindex::record(&mut rng, n, &mut out),
                "StrIndex" => m_strindex::record(&mut rng, n, &mut out),
                "Parser" => m_parser::record(&mut rng, n, &mut out),
                "Cmp" => m_cmp::record(&mut rng, n, &mut out),
                "SliceIter" => m_sliceiter::record(&mut rng, n, &mut out),
                "Chars" => m_chars::record(&mut rng, n, &mut out),
                "Split" => m_split::record(&mut rng, n, &mut out),
                "CStr" => m_cstr::record(&mut rng, n, &mut out),
                "Ownership-5" => m_ownership::record(5, &mut rng, n, &mut out),
                "Ownership-8" => m_ownership::record(8, &mut rng, n, &mut out),
                "ParseInt" => m_parseint::record(&mut rng, n, &mut out),
                "RangeIter-u16" => m_rangeiter::record("u16", &mut rng, n, &mut out),
                "RangeIter-i16" => m_rangeiter::record("i16", &mut rng, n, &mut out),
                "RangeIter-char" => m_rangeiter::record("char", &mut rng, n, &mut out),
                // seed = first block, n = number of 256-value blocks
                "CharSweep" => m_chars::record_sweep(seed as u32, n as u32, &mut out),
                m => panic!("kh: unknown module {m}"),
            }
            }));
            if r.is_err() {
                writeln!(out, "{}", serde_json::json!({"ev": "panic", "what": "the code under test panicked during this history"})).unwrap();
            }
            out.flush().unwrap();
        }
        _ => {
            eprintln!("usage: kh replay <file>.. | kh record <Module> <seed> <n> <out>");
            std::process::exit(2);
        }
    }
}
