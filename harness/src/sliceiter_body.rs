// included twice by m_sliceiter.rs (element types u16 and [u64; 3])


macro_rules! any_iter {
    ($( $var:ident / $rvar:ident : $ty:ty , $rty:ty ; item $conv:expr ; extra $extra:expr ;)*) => {
        pub enum AnyIt<'a> { $( $var($ty), $rvar($rty), )* }
        impl<'a> AnyIt<'a> {
            /// (item window, iterator after the step) — the step is taken on a copy
            pub fn next(&self, base: &'a [E]) -> Option<((usize, usize), AnyIt<'a>)> {
                match self { $(
                    AnyIt::$var(i) => i.copy().next().map(|(it, n)| (($conv)(it, base), AnyIt::$var(n))),
                    AnyIt::$rvar(i) => i.copy().next().map(|(it, n)| (($conv)(it, base), AnyIt::$rvar(n))),
                )* }
            }
            pub fn next_back(&self, base: &'a [E]) -> Option<((usize, usize), AnyIt<'a>)> {
                match self { $(
                    AnyIt::$var(i) => i.copy().next_back().map(|(it, n)| (($conv)(it, base), AnyIt::$var(n))),
                    AnyIt::$rvar(i) => i.copy().next_back().map(|(it, n)| (($conv)(it, base), AnyIt::$rvar(n))),
                )* }
            }
            pub fn rev(&self) -> AnyIt<'a> {
                match self { $(
                    AnyIt::$var(i) => AnyIt::$rvar(i.copy().rev()),
                    AnyIt::$rvar(i) => AnyIt::$var(i.copy().rev()),
                )* }
            }
            /// as_slice / remainder where the type offers it
            pub fn extra(&self, base: &'a [E]) -> Option<(usize, usize)> {
                match self { $(
                    AnyIt::$var(me) => ($extra)(me, base),
                    AnyIt::$rvar(_) => None,
                )* }
            }
        }
    };
}

fn w(sub: &[E], base: &[E]) -> (usize, usize) {
    if sub.is_empty() {
        // position of an empty window is only meaningful by address
        let off = (sub.as_ptr() as usize).wrapping_sub(base.as_ptr() as usize) / std::mem::size_of::<E>();
        return (off, off);
    }
    if !inside(sub, base) {
        return (usize::MAX, usize::MAX);
    }
    let off = (sub.as_ptr() as usize - base.as_ptr() as usize) / std::mem::size_of::<E>();
    (off, off + sub.len())
}
fn w1(e: &E, base: &[E]) -> (usize, usize) {
    w(std::slice::from_ref(e), base)
}

any_iter! {
    Iter / IterRev : ks::Iter<'a, E>, ks::IterRev<'a, E> ; item |it, base: &[E]| w1(it, base) ; extra |me: &ks::Iter<'a, E>, base: &[E]| -> Option<(usize, usize)> { let _ = (me, base); Some(w(me.as_slice(), base)) } ;
    Copied / CopiedRev : ks::IterCopied<'a, E>, ks::IterCopiedRev<'a, E> ; item |it, base: &[E]| { let v = ix(it); (v, v + 1) } ; extra |me: &ks::IterCopied<'a, E>, base: &[E]| -> Option<(usize, usize)> { let _ = (me, base); Some(w(me.as_slice(), base)) } ;
    Windows / WindowsRev : ks::Windows<'a, E>, ks::WindowsRev<'a, E> ; item |it, base: &[E]| w(it, base) ; extra |me: &ks::Windows<'a, E>, base: &[E]| -> Option<(usize, usize)> { let _ = (me, base); None } ;
    Chunks / ChunksRev : ks::Chunks<'a, E>, ks::ChunksRev<'a, E> ; item |it, base: &[E]| w(it, base) ; extra |me: &ks::Chunks<'a, E>, base: &[E]| -> Option<(usize, usize)> { let _ = (me, base); None } ;
    RChunks / RChunksRev : ks::RChunks<'a, E>, ks::RChunksRev<'a, E> ; item |it, base: &[E]| w(it, base) ; extra |me: &ks::RChunks<'a, E>, base: &[E]| -> Option<(usize, usize)> { let _ = (me, base); None } ;
    ChunksExact / ChunksExactRev : ks::ChunksExact<'a, E>, ks::ChunksExactRev<'a, E> ; item |it, base: &[E]| w(it, base) ; extra |me: &ks::ChunksExact<'a, E>, base: &[E]| -> Option<(usize, usize)> { let _ = (me, base); Some(w(me.remainder(), base)) } ;
    RChunksExact / RChunksExactRev : ks::RChunksExact<'a, E>, ks::RChunksExactRev<'a, E> ; item |it, base: &[E]| w(it, base) ; extra |me: &ks::RChunksExact<'a, E>, base: &[E]| -> Option<(usize, usize)> { let _ = (me, base); Some(w(me.remainder(), base)) } ;
    AC1 / AC1Rev : ks::ArrayChunks<'a, E, 1>, ks::ArrayChunksRev<'a, E, 1> ; item |it: &[E; 1], base: &[E]| w(&it[..], base) ; extra |me: &ks::ArrayChunks<'a, E, 1>, base: &[E]| -> Option<(usize, usize)> { let _ = (me, base); Some(w(me.remainder(), base)) } ;
    AC2 / AC2Rev : ks::ArrayChunks<'a, E, 2>, ks::ArrayChunksRev<'a, E, 2> ; item |it: &[E; 2], base: &[E]| w(&it[..], base) ; extra |me: &ks::ArrayChunks<'a, E, 2>, base: &[E]| -> Option<(usize, usize)> { let _ = (me, base); Some(w(me.remainder(), base)) } ;
    AC3 / AC3Rev : ks::ArrayChunks<'a, E, 3>, ks::ArrayChunksRev<'a, E, 3> ; item |it: &[E; 3], base: &[E]| w(&it[..], base) ; extra |me: &ks::ArrayChunks<'a, E, 3>, base: &[E]| -> Option<(usize, usize)> { let _ = (me, base); Some(w(me.remainder(), base)) } ;
    AC4 / AC4Rev : ks::ArrayChunks<'a, E, 4>, ks::ArrayChunksRev<'a, E, 4> ; item |it: &[E; 4], base: &[E]| w(&it[..], base) ; extra |me: &ks::ArrayChunks<'a, E, 4>, base: &[E]| -> Option<(usize, usize)> { let _ = (me, base); Some(w(me.remainder(), base)) } ;
    AC5 / AC5Rev : ks::ArrayChunks<'a, E, 5>, ks::ArrayChunksRev<'a, E, 5> ; item |it: &[E; 5], base: &[E]| w(&it[..], base) ; extra |me: &ks::ArrayChunks<'a, E, 5>, base: &[E]| -> Option<(usize, usize)> { let _ = (me, base); Some(w(me.remainder(), base)) } ;
    AC8 / AC8Rev : ks::ArrayChunks<'a, E, 8>, ks::ArrayChunksRev<'a, E, 8> ; item |it: &[E; 8], base: &[E]| w(&it[..], base) ; extra |me: &ks::ArrayChunks<'a, E, 8>, base: &[E]| -> Option<(usize, usize)> { let _ = (me, base); Some(w(me.remainder(), base)) } ;
    AC16 / AC16Rev : ks::ArrayChunks<'a, E, 16>, ks::ArrayChunksRev<'a, E, 16> ; item |it: &[E; 16], base: &[E]| w(&it[..], base) ; extra |me: &ks::ArrayChunks<'a, E, 16>, base: &[E]| -> Option<(usize, usize)> { let _ = (me, base); Some(w(me.remainder(), base)) } ;
}

/// model size -> real size: values >= 100 stand for the neighbourhood of isize::MAX / usize::MAX
pub fn big(n: usize) -> usize {
    if n < 100 { n } else { crate::m_sliceindex::p8(n as u64) }
}

pub fn make<'a>(kind: &str, base: &'a [E], n: usize) -> Option<AnyIt<'a>> {
    Some(match kind {
        "iter" => AnyIt::Iter(ks::iter(base)),
        "copied" => AnyIt::Copied(ks::iter_copied(base)),
        "windows" => AnyIt::Windows(ks::windows(base, n)),
        "chunks" => AnyIt::Chunks(ks::chunks(base, n)),
        "rchunks" => AnyIt::RChunks(ks::rchunks(base, n)),
        "chunks_exact" => AnyIt::ChunksExact(ks::chunks_exact(base, n)),
        "rchunks_exact" => AnyIt::RChunksExact(ks::rchunks_exact(base, n)),
        "array_chunks" => match n {
            1 => AnyIt::AC1(ks::array_chunks(base)),
            2 => AnyIt::AC2(ks::array_chunks(base)),
            3 => AnyIt::AC3(ks::array_chunks(base)),
            4 => AnyIt::AC4(ks::array_chunks(base)),
            5 => AnyIt::AC5(ks::array_chunks(base)),
            8 => AnyIt::AC8(ks::array_chunks(base)),
            16 => AnyIt::AC16(ks::array_chunks(base)),
            _ => return None,
        },
        _ => panic!("unknown SliceIter kind {kind}"),
    })
}

fn item_json(x: Option<(usize, usize)>) -> V {
    match x {
        None => none(),
        Some((a, b)) => some(json!([a, b])),
    }
}

/// std's iterator of the same name over the window [lo,hi) (sanity guard for the reference)
fn std_ends(kind: &str, base: &[E], lo: usize, hi: usize, n: usize) -> (V, V) {
    let v = &base[lo..hi];
    let f = |x: Option<&[E]>| item_json(x.map(|s| w(s, base)));
    match kind {
        "iter" | "copied" => (f(v.iter().next().map(std::slice::from_ref)), f(v.iter().next_back().map(std::slice::from_ref))),
        "windows" => (f(v.windows(n).next()), f(v.windows(n).next_back())),
        "chunks" => (f(v.chunks(n).next()), f(v.chunks(n).next_back())),
        "rchunks" => (f(v.rchunks(n).next()), f(v.rchunks(n).next_back())),
        "chunks_exact" | "array_chunks" => (f(v.chunks_exact(n).next()), f(v.chunks_exact(n).next_back())),
        "rchunks_exact" => (f(v.rchunks_exact(n).next()), f(v.rchunks_exact(n).next_back())),
        _ => unreachable!(),
    }
}

pub fn replay_sized(s: &mut Summary, v: &V) {
    let kind = v["kind"].as_str().unwrap();
    let len = v["len"].as_u64().unwrap() as usize;
    let n = v["n"].as_u64().unwrap() as usize;
    let basev: Vec<E> = (0..len).map(mk).collect();
    let base: &[E] = &basev;
    let Some(mut it) = make(kind, base, big(n)) else { s.note("array_chunks N not instantiated"); return };
    for op in v["path"].as_array().unwrap() {
        let r = match op.as_str().unwrap() {
            "next" => it.next(base).map(|x| x.1),
            "next_back" => it.next_back(base).map(|x| x.1),
            "rev" => Some(it.rev()),
            o => panic!("unknown op {o}"),
        };
        match r {
            Some(n2) => it = n2,
            None => {
                s.monitor(&format!("{kind}/path"), false, "a step of the witness path returned None on the real iterator");
                return;
            }
        }
    }
    let fwd = v["fwd"].as_bool().unwrap();
    let tag = format!("{kind}{}{}", if fwd { "" } else { "/Rev" }, TN);
    s.check(&format!("{tag}::next"), item_json(it.next(base).map(|x| x.0)), &v["next"]);
    s.check(&format!("{tag}::next_back"), item_json(it.next_back(base).map(|x| x.0)), &v["next_back"]);
    let lo = v["st"]["lo"].as_u64().unwrap() as usize;
    let hi = v["st"]["hi"].as_u64().unwrap() as usize;
    if let Some(e) = it.extra(base) {
        let exp = if kind == "iter" || kind == "copied" { (lo, hi) } else {
            let r = &v["st"]["rem"]; (r[0].as_u64().unwrap() as usize, r[1].as_u64().unwrap() as usize) };
        let norm = |x: (usize, usize)| if x.0 == x.1 { (0, 0) } else { x };
        s.check(&format!("{tag}::as_slice|remainder"), json!([norm(e).0, norm(e).1]), &json!([norm(exp).0, norm(exp).1]));
    }
    // reference vs std on the remaining window (chunks kinds: std over the remaining slice)
    let (sn, sb) = std_ends(kind, base, lo, hi, big(n));
    let (en, eb) = if fwd { (&v["next"], &v["next_back"]) } else { (&v["next_back"], &v["next"]) };
    s.guard(&format!("std::{kind}::next"), sn, en);
    s.guard(&format!("std::{kind}::next_back"), sb, eb);
}

/// random long histories on slices up to 200 elements: {ev:"init",kind,len,n} then {ev:op, item}
pub fn record(rng: &mut SmallRng, n_events: usize, out: &mut dyn Write) {
    const KINDS: [&str; 8] = ["iter", "copied", "windows", "chunks", "rchunks", "chunks_exact", "rchunks_exact", "array_chunks"];
    let mut left = n_events;
    while left > 0 {
        let kind = KINDS[rng.gen_range(0..KINDS.len())];
        let len = if rng.gen_range(0..10) == 0 { [254usize, 255, 256, 257, 258, 300, 513, 600][rng.gen_range(0..8)] } else { rng.gen_range(0..=200usize) };
        let n = if kind == "array_chunks" { [1, 2, 3, 4, 5, 8, 16][rng.gen_range(0..7)] } else if kind == "iter" || kind == "copied" { 1 }
                else { [1, 2, 3, 7, 16, len.max(1), len + 1, usize::MAX - rng.gen_range(0..3usize), isize::MAX as usize + rng.gen_range(0..2usize),
                       (usize::MAX - len).saturating_add(rng.gen_range(0..3usize))][rng.gen_range(0..10)] };
        let basev: Vec<E> = (0..len).map(mk).collect();
        let base: &[E] = &basev;
        let mut it = make(kind, base, n).unwrap();
        writeln!(out, "{}", json!({"ev": "init", "kind": kind, "len": len, "n": n.min(1_000_000)})).unwrap();
        left -= 1;
        let bias = rng.gen_range(1..10);
        for _ in 0..rng.gen_range(1..400) {
            if left == 0 { break; }
            let c = rng.gen_range(0..12);
            let (ev, item) = if c == 0 {
                it = it.rev();
                ("rev", json!(0))
            } else if c <= bias {
                match it.next(base) { Some((i, n2)) => { it = n2; ("next", item_json(Some(i))) } None => ("next", none()) }
            } else {
                match it.next_back(base) { Some((i, n2)) => { it = n2; ("next_back", item_json(Some(i))) } None => ("next_back", none()) }
            };
            let hx = it.extra(base).is_some() as u8;
            let extra = it.extra(base).map_or(json!([0, 0]), |(a, b)| if a == b { json!([0, 0]) } else { json!([a, b]) });
            writeln!(out, "{}", json!({"ev": ev, "item": item, "hx": hx, "extra": extra})).unwrap();
            left -= 1;
        }
    }
}
