//! C05 — prefix/suffix tests, stripping, pattern trimming, ASCII-whitespace trimming.
use crate::common::*;
use crate::{for_bytes_pats, for_str_pats};
use konst::{slice, string};
use rand::{rngs::SmallRng, Rng};
use serde_json::json;
use std::io::Write;

pub const PAT_OPS: [&str; 7] = [
    "starts_with", "ends_with", "strip_prefix", "strip_suffix", "trim_start_matches",
    "trim_end_matches", "trim_matches",
];
pub const SPACE_OPS: [&str; 3] = ["trim", "trim_start", "trim_end"];

macro_rules! str_pat_op {
    ($op:expr, $s:expr, $p:expr) => {
        match $op {
            "starts_with" => (json!(string::starts_with($s, $p)), None),
            "ends_with" => (json!(string::ends_with($s, $p)), None),
            "strip_prefix" => {
                let r = string::strip_prefix($s, $p);
                (opt(r, js), r)
            }
            "strip_suffix" => {
                let r = string::strip_suffix($s, $p);
                (opt(r, js), r)
            }
            "trim_start_matches" => {
                let r = string::trim_start_matches($s, $p);
                (js(r), Some(r))
            }
            "trim_end_matches" => {
                let r = string::trim_end_matches($s, $p);
                (js(r), Some(r))
            }
            "trim_matches" => {
                let r = string::trim_matches($s, $p);
                (js(r), Some(r))
            }
            _ => panic!("unknown StripTrim op {}", $op),
        }
    };
}

fn str_space_op<'a>(op: &str, s: &'a str) -> &'a str {
    match op {
        "trim" => string::trim(s),
        "trim_start" => string::trim_start(s),
        "trim_end" => string::trim_end(s),
        _ => panic!("unknown StripTrim op {op}"),
    }
}

fn std_op(op: &str, s: &str, n: &str) -> Option<V> {
    Some(match op {
        "starts_with" => json!(s.starts_with(n)),
        "ends_with" => json!(s.ends_with(n)),
        "strip_prefix" => opt(s.strip_prefix(n), js),
        "strip_suffix" => opt(s.strip_suffix(n), js),
        "trim_start_matches" if !n.is_empty() => js(s.trim_start_matches(n)),
        "trim_end_matches" if !n.is_empty() => js(s.trim_end_matches(n)),
        "trim_matches" => {
            let mut cs = n.chars();
            match (cs.next(), cs.next()) {
                (Some(c), None) => js(s.trim_matches(c)),
                _ => return None,
            }
        }
        _ => return None,
    })
}

pub fn replay(s: &mut Summary, v: &V) {
    let op = v["op"].as_str().unwrap();
    let h = bytes_of(&v["s"]);
    let n = bytes_of(&v["n"]);
    let exp = &v["exp"];

    if SPACE_OPS.contains(&op) {
        let r = match op {
            "trim" => slice::bytes_trim(&h),
            "trim_start" => slice::bytes_trim_start(&h),
            _ => slice::bytes_trim_end(&h),
        };
        s.check(&format!("slice::bytes_{op}"), jb(r), exp);
        s.monitor(&format!("slice::bytes_{op}"), inside(r, &h), "result is a window of the argument");
        let stdv = match op {
            "trim" => h.trim_ascii(),
            "trim_start" => h.trim_ascii_start(),
            _ => h.trim_ascii_end(),
        };
        s.guard(&format!("std::{op}_ascii"), jb(stdv), exp);
        if let Ok(hs) = std::str::from_utf8(&h) {
            let r = str_space_op(op, hs);
            s.check(&format!("string::{op}"), js(r), exp);
            s.monitor(&format!("string::{op}"), str_inside(r, hs), "result is a UTF-8 window of the argument");
        }
        return;
    }

    for_bytes_pats!(&n, |kind, p| {
        let name = format!("slice::bytes_{op}/{kind}");
        let (got, win): (V, Option<&[u8]>) = match op {
            "starts_with" => (json!(slice::bytes_start_with(&h, p)), None),
            "ends_with" => (json!(slice::bytes_end_with(&h, p)), None),
            "strip_prefix" => {
                let r = slice::bytes_strip_prefix(&h, p);
                (opt(r, jb), r)
            }
            "strip_suffix" => {
                let r = slice::bytes_strip_suffix(&h, p);
                (opt(r, jb), r)
            }
            "trim_start_matches" => {
                let r = slice::bytes_trim_start_matches(&h, p);
                (jb(r), Some(r))
            }
            "trim_end_matches" => {
                let r = slice::bytes_trim_end_matches(&h, p);
                (jb(r), Some(r))
            }
            "trim_matches" => {
                let r = slice::bytes_trim_matches(&h, p);
                (jb(r), Some(r))
            }
            _ => panic!("unknown StripTrim op {op}"),
        };
        s.check(&name, got, exp);
        s.monitor(&name, win.map_or(true, |r| inside(r, &h)), "result is a window of the argument");
    });
    if let (Ok(hs), Ok(ns)) = (std::str::from_utf8(&h), std::str::from_utf8(&n)) {
        for_str_pats!(ns, |kind, p| {
            let name = format!("string::{op}/{kind}");
            let (got, win) = str_pat_op!(op, hs, p);
            s.check(&name, got, exp);
            s.monitor(&name, win.map_or(true, |r| str_inside(r, hs)), "result is a UTF-8 window of the argument");
        });
        if let Some(stdv) = std_op(op, hs, ns) {
            s.guard(&format!("std::{op}"), stdv, exp);
        }
    }
}

pub fn record(rng: &mut SmallRng, n_events: usize, out: &mut dyn Write) {
    let alpha: [&str; 6] = ["a", "b", "ñ", "√", " ", "\t"];
    let ws: [&str; 6] = [" ", "\t", "\n", "\r", "\x0C", "\x0B"];
    let mut left = n_events;
    while left > 0 {
        // one case in five: a long pattern (around 8 / 16 / 32 / 64 bytes) or many repetitions of a short one
        let long = rng.gen_range(0..16) == 0;
        let nlen = if long { [7, 8, 9, 15, 16, 17, 31, 32, 33, 63, 64, 65][rng.gen_range(0..12)] } else { rng.gen_range(0..=3) };
        let n: String = (0..nlen).map(|_| alpha[rng.gen_range(0..3)]).collect();
        let mut s = String::new();
        let reps = if !long && rng.gen_range(0..16) == 0 { rng.gen_range(8..40) } else { rng.gen_range(0..4) };
        for _ in 0..reps {
            s.push_str(&n);
        }
        if rng.gen_bool(0.5) {
            let cut = n.chars().count().saturating_sub(1);
            s.extend(n.chars().take(cut));
        }
        for _ in 0..rng.gen_range(0..8) {
            s.push_str(alpha[rng.gen_range(0..alpha.len())]);
        }
        for _ in 0..rng.gen_range(0..4) {
            s.push_str(&n);
        }
        // whitespace decoration for the space ops
        let mut w = String::new();
        for _ in 0..rng.gen_range(0..4) {
            w.push_str(ws[rng.gen_range(0..ws.len())]);
        }
        w.push_str(&s);
        for _ in 0..rng.gen_range(0..4) {
            w.push_str(ws[rng.gen_range(0..ws.len())]);
        }
        for op in PAT_OPS {
            if left == 0 {
                break;
            }
            let ret = catch(std::panic::AssertUnwindSafe(|| str_pat_op!(op, s.as_str(), n.as_str()).0));
            writeln!(out, "{}", json!({"ev": op, "s": js(&s), "n": js(&n), "ret": ret})).unwrap();
            left -= 1;
        }
        for op in SPACE_OPS {
            if left == 0 {
                break;
            }
            let ret = catch(std::panic::AssertUnwindSafe(|| js(str_space_op(op, &w))));
            writeln!(out, "{}", json!({"ev": op, "s": js(&w), "n": [], "ret": ret})).unwrap();
            left -= 1;
        }
    }
}
