//! C12 — integer / bool parsing: Parser::parse_*, primitive::parse_*, StdParser::parse_with.
use crate::common::*;
use konst::parsing::{ParseDirection, Parser, StdParser};
use konst::primitive as kp;
use rand::{rngs::SmallRng, Rng};
use serde_json::json;
use std::io::Write;

fn mag_digits(abs_text: &str) -> V {
    let t = abs_text.trim_start_matches('0');
    V::Array(t.bytes().map(|b| json!(b - b'0')).collect())
}

macro_rules! int_type {
    ($s:ident, $st:ident, $bytes:ident, $exp:ident, $t:ty, $pm:ident, $signed:expr) => {{
        let tn = stringify!($t);
        let render = |v: $t, consumed: usize| -> V {
            let text = v.to_string();
            let (neg, abs) = if let Some(r) = text.strip_prefix('-') { (true, r.to_string()) } else { (false, text) };
            json!({"some": {"neg": neg, "mag": mag_digits(&abs), "consumed": consumed}})
        };
        // prefix parse through the Parser
        let got = match Parser::new($st).$pm() {
            Ok((v, p)) => {
                $s.monitor(&format!("Parser::{}", stringify!($pm)), str_inside(p.remainder(), $st)
                    && p.start_offset() == $st.len() - p.remainder().len(), "rest is the unconsumed suffix at the right offset");
                render(v, $st.len() - p.remainder().len())
            }
            Err(e) => {
                $s.monitor(&format!("Parser::{}", stringify!($pm)), e.offset() == 0
                    && matches!(e.error_direction(), ParseDirection::FromStart), "failure consumes nothing: error at the start offset");
                none()
            }
        };
        $s.check(&format!("Parser::parse_{tn}"), got, $exp);
        // same through with_start_offset and the HasParser dispatch
        let got2 = match StdParser::<$t>::parse_with(Parser::with_start_offset($st, 7)) {
            Ok((v, p)) => {
                $s.monitor(&format!("StdParser<{tn}>::parse_with"), p.start_offset() == 7 + ($st.len() - p.remainder().len()), "offset with base");
                render(v, $st.len() - p.remainder().len())
            }
            Err(e) => { $s.monitor(&format!("StdParser<{tn}>::parse_with"), e.offset() == 7, "error offset = start offset"); none() }
        };
        $s.check(&format!("StdParser<{tn}>::parse_with"), got2, $exp);
        // the parse_with! macro (type -> parser dispatch through HasParser)
        let got3 = match konst::parse_with!(Parser::new($st), $t) {
            Ok((v, p)) => render(v, $st.len() - p.remainder().len()),
            Err(_) => none(),
        };
        $s.check(&format!("parse_with!(_, {tn})"), got3, $exp);
        // whole-string parse
        let whole_exp = match $exp.get("some") {
            Some(r) if r["consumed"].as_u64().unwrap() as usize == $bytes.len() =>
                json!({"some": {"neg": r["neg"], "mag": r["mag"], "consumed": r["consumed"]}}),
            _ => none(),
        };
        if !ONLY_PARSER.load(std::sync::atomic::Ordering::Relaxed) {
            let whole = match kp::$pm($st) { Ok(v) => render(v, $st.len()), Err(_) => none() };
            $s.check(&format!("primitive::parse_{tn}"), whole, &whole_exp);
        }
        // reference vs std (std additionally accepts a leading '+')
        if !$st.starts_with('+') {
            let stdv = match $st.parse::<$t>() { Ok(v) => render(v, $st.len()), Err(_) => none() };
            $s.guard(&format!("std::parse::<{tn}>"), stdv, &whole_exp);
        }
        let _ = $signed;
    }};
}

/// set per record: C14 replays the vectors through the Parser operations only
static ONLY_PARSER: std::sync::atomic::AtomicBool = std::sync::atomic::AtomicBool::new(false);

pub fn replay(s: &mut Summary, v: &V) {
    ONLY_PARSER.store(v.get("only_parser").is_some(), std::sync::atomic::Ordering::Relaxed);
    let ty = v["ty"].as_str().unwrap();
    let bytes = bytes_of(&v["s"]);
    let st = std::str::from_utf8(&bytes).expect("ParseInt inputs are UTF-8");
    let exp = &v["exp"];
    match ty {
        "u8" => int_type!(s, st, bytes, exp, u8, parse_u8, false),
        "i8" => int_type!(s, st, bytes, exp, i8, parse_i8, true),
        "u16" => int_type!(s, st, bytes, exp, u16, parse_u16, false),
        "i16" => int_type!(s, st, bytes, exp, i16, parse_i16, true),
        "u32" => int_type!(s, st, bytes, exp, u32, parse_u32, false),
        "i32" => int_type!(s, st, bytes, exp, i32, parse_i32, true),
        "u64" => int_type!(s, st, bytes, exp, u64, parse_u64, false),
        "i64" => int_type!(s, st, bytes, exp, i64, parse_i64, true),
        "u128" => int_type!(s, st, bytes, exp, u128, parse_u128, false),
        "i128" => int_type!(s, st, bytes, exp, i128, parse_i128, true),
        "usize" => int_type!(s, st, bytes, exp, usize, parse_usize, false),
        "isize" => int_type!(s, st, bytes, exp, isize, parse_isize, true),
        "bool" => {
            let got = match Parser::new(st).parse_bool() {
                Ok((b, p)) => json!({"some": {"val": b, "consumed": st.len() - p.remainder().len()}}),
                Err(e) => { s.monitor("Parser::parse_bool", e.offset() == 0, "error at the start offset"); none() }
            };
            s.check("Parser::parse_bool", got, exp);
            let whole_exp = match exp.get("some") {
                Some(r) if r["consumed"].as_u64().unwrap() as usize == bytes.len() => json!({"some": r["val"]}),
                _ => none(),
            };
            if v.get("only_parser").is_none() { s.check("primitive::parse_bool", match kp::parse_bool(st) { Ok(b) => json!({"some": b}), Err(_) => none() }, &whole_exp); }
            s.guard("std::parse::<bool>", match st.parse::<bool>() { Ok(b) => json!({"some": b}), Err(_) => none() }, &whole_exp);
        }
        _ => panic!("unknown ParseInt type {ty}"),
    }
}

/// random digit strings up to 45 digits for every type: {ev: ty, s, ok, neg, mag, consumed}
pub fn record(rng: &mut SmallRng, n_events: usize, out: &mut dyn Write) {
    const TYS: [&str; 12] = ["u8", "i8", "u16", "i16", "u32", "i32", "u64", "i64", "u128", "i128", "usize", "isize"];
    let maxes: [&str; 10] = ["255", "127", "65535", "32767", "4294967295", "2147483647", "18446744073709551615",
        "9223372036854775807", "340282366920938463463374607431768211455", "170141183460469231731687303715884105727"];
    for _ in 0..n_events {
        let ty = TYS[rng.gen_range(0..TYS.len())];
        let mut st = String::new();
        if rng.gen_bool(0.4) { st.push('-'); }
        // leading zeros: a few; rarely 38..45 or 254..300 of them (digit counters / length cut-offs)
        let zeros = match rng.gen_range(0..30) { 0 => rng.gen_range(38..46), 1 => [254, 255, 256, 257, 300][rng.gen_range(0..5)], _ => rng.gen_range(0..3) };
        for _ in 0..zeros { st.push('0'); }
        match rng.gen_range(0..3) {
            0 => { for _ in 0..rng.gen_range(0..45) { st.push((b'0' + rng.gen_range(0..10)) as char); } }
            1 => {
                // a number close to one of the type maxima: same digits with a perturbed tail
                let m = maxes[rng.gen_range(0..maxes.len())];
                let mut d: Vec<u8> = m.bytes().collect();
                let k = d.len();
                for j in (k.saturating_sub(rng.gen_range(0..3)))..k { d[j] = b'0' + rng.gen_range(0..10); }
                st.push_str(std::str::from_utf8(&d).unwrap());
                if rng.gen_bool(0.2) { st.push((b'0' + rng.gen_range(0..10)) as char); }
            }
            _ => { st.push_str(&rng.gen_range(0..100000u32).to_string()); }
        }
        match rng.gen_range(0..4) { 0 => st.push('x'), 1 => st.push_str(" 1"), 2 => st.push('-'), _ => {} }
        macro_rules! run { ($t:ty, $pm:ident) => {{
            match Parser::new(&st).$pm() {
                Ok((v, p)) => {
                    let text = v.to_string();
                    let (neg, abs) = if let Some(r) = text.strip_prefix('-') { (true, r.to_string()) } else { (false, text) };
                    json!({"ev": ty, "s": js(&st), "ok": 1, "neg": neg, "mag": mag_digits(&abs), "consumed": st.len() - p.remainder().len()})
                }
                Err(_) => json!({"ev": ty, "s": js(&st), "ok": 0, "neg": false, "mag": [], "consumed": 0}),
            }
        }} }
        let ev = match ty {
            "u8" => run!(u8, parse_u8), "i8" => run!(i8, parse_i8), "u16" => run!(u16, parse_u16), "i16" => run!(i16, parse_i16),
            "u32" => run!(u32, parse_u32), "i32" => run!(i32, parse_i32), "u64" => run!(u64, parse_u64), "i64" => run!(i64, parse_i64),
            "u128" => run!(u128, parse_u128), "i128" => run!(i128, parse_i128), "usize" => run!(usize, parse_usize), _ => run!(isize, parse_isize),
        };
        writeln!(out, "{}", ev).unwrap();
    }
}
