//! C01 growth — the safe wrappers of konst::maybe_uninit, konst::manually_drop and konst::ptr replayed against
//! Mem.tla with a drop-ledger element type (natively and under Miri).
use crate::common::*;
use crate::m_ownership::{ledger_reset, ledger_snapshot, L};
use konst::{manually_drop, maybe_uninit, ptr};
use serde_json::json;
use std::mem::{ManuallyDrop, MaybeUninit};

fn run<const N: usize>(s: &mut Summary, v: &V) {
    ledger_reset();
    let mut arr: [MaybeUninit<L>; N] = maybe_uninit::uninit_array::<L, N>();
    let mut md: ManuallyDrop<L> = ManuallyDrop::new(L::new()); // value 1
    let mut ok = true;
    for st in v["path"].as_array().unwrap() {
        let i = st["i"].as_u64().unwrap() as usize;
        match st["op"].as_str().unwrap() {
            "write" => {
                let val = L::new();
                let id = val.id();
                let r: &mut L = maybe_uninit::write(&mut arr[i - 1], val);
                ok &= r.id() == id && r.intact();
            }
            "ptr_write" => {
                let p: *mut L = maybe_uninit::as_mut_ptr(&mut arr[i - 1]);
                ok &= !ptr::is_null(p as *const L) && ptr::nonnull::new(p).is_some();
                unsafe { p.write(L::new()) };
            }
            "md_set" => {
                *manually_drop::as_inner_mut(&mut md) = L::new();
            }
            "assume_init" => {}
            o => panic!("unknown Mem op {o}"),
        }
    }
    s.monitor("maybe_uninit::write", ok, "write returns a reference to the value just written");
    // observations
    s.check("manually_drop::as_inner", json!(manually_drop::as_inner(&md).id()), &v["md"]);
    let nn = ptr::nonnull::from_ref(manually_drop::as_inner(&md));
    s.monitor("ptr::nonnull::from_ref", unsafe { ptr::nonnull::as_ref(nn) }.id() == v["md"].as_u64().unwrap() as u32, "round trip");
    let nm = ptr::nonnull::from_mut(manually_drop::as_inner_mut(&mut md));
    s.monitor("ptr::nonnull::from_mut", unsafe { ptr::as_ref(nm.as_ptr() as *const L) }.map_or(false, |x| x.intact()), "round trip");
    s.monitor("ptr::is_null / nonnull::new(null)", ptr::is_null(std::ptr::null::<L>()) && ptr::nonnull::new(std::ptr::null_mut::<L>()).is_none(), "null handling");
    let slots: Vec<u64> = v["slots"].as_array().unwrap().iter().map(|x| x.as_u64().unwrap()).collect();
    if v["assumed"] == json!(1) {
        // the model guarantees that every slot is initialised here
        let a: [L; N] = unsafe { maybe_uninit::array_assume_init(arr) };
        s.check("maybe_uninit::array_assume_init", V::Array(a.iter().map(|x| json!(x.id())).collect()), &v["slots"]);
        s.monitor("payload", a.iter().all(|x| x.intact()), "values unchanged");
        drop(a);
    } else {
        let mut got = Vec::new();
        for (k, sl) in arr.iter_mut().enumerate() {
            if slots[k] != 0 {
                let r = unsafe { maybe_uninit::assume_init_mut(sl) };
                got.push(json!(r.id()));
                unsafe { sl.assume_init_drop() };
            } else {
                got.push(json!(0));
            }
        }
        s.check("slots", V::Array(got), &v["slots"]);
    }
    unsafe { drop(manually_drop::take(&mut md)) };
    // ledger: every value dropped exactly once, except the ones the model says were overwritten without a drop
    let snap = ledger_snapshot();
    let lost: Vec<u64> = v["lost"].as_array().unwrap().iter().map(|x| x.as_u64().unwrap()).collect();
    let good = snap.len() == lost.len() && snap.iter().zip(&lost).all(|(x, l)| x.1 == (1 - *l as u32));
    s.monitor("ledger", good, "each value dropped exactly once, overwritten values leaked (never dropped twice)");
}

pub fn replay(s: &mut Summary, v: &V) {
    match v["n"].as_u64().unwrap() {
        0 => run::<0>(s, v),
        1 => run::<1>(s, v),
        2 => run::<2>(s, v),
        3 => run::<3>(s, v),
        n => panic!("unsupported N {n}"),
    }
}
