//! C13 / C14 — konst::parsing::Parser.  Behaviour lines {s, base, path, st, outs} emitted by TLC
//! (one per distinct state) are replayed: the path rebuilds the parser, `st` is the expected
//! observation, every entry of `outs` is applied to a copy and compared.
use crate::common::*;
use konst::parsing::{ErrorKind, ParseDirection, ParseError, Parser};
use rand::{rngs::SmallRng, Rng};
use serde_json::json;
use std::io::Write;

pub enum Ret {
    None,
    Piece(Vec<u8>),
    Int(i64),
    Bool(bool),
}
impl Ret {
    fn to_json(&self) -> V {
        match self {
            Ret::None => json!(0),
            Ret::Piece(b) => jb(b),
            Ret::Int(i) => json!(i),
            Ret::Bool(b) => json!(b),
        }
    }
}

fn dir_s(d: ParseDirection) -> &'static str {
    match d {
        ParseDirection::FromStart => "S",
        ParseDirection::FromEnd => "E",
        ParseDirection::FromBoth => "B",
    }
}
fn kind_s(k: ErrorKind) -> &'static str {
    match k {
        ErrorKind::ParseInteger => "ParseInteger",
        ErrorKind::ParseBool => "ParseBool",
        ErrorKind::Find => "Find",
        ErrorKind::Strip => "Strip",
        ErrorKind::SplitExhausted => "SplitExhausted",
        ErrorKind::DelimiterNotFound => "DelimiterNotFound",
        ErrorKind::Other => "Other",
        _ => "?",
    }
}

/// apply one operation; `as_char` uses the `char` pattern kind when the pattern is one character
pub fn apply<'a>(p: Parser<'a>, op: &str, pat: &str, n: usize, as_char: bool) -> Result<(Ret, Parser<'a>), ParseError<'a>> {
    let c = pat.chars().next().unwrap_or('x');
    macro_rules! pp {
        ($m:ident) => {
            if as_char { p.$m(c) } else { p.$m(pat) }
        };
    }
    let piece = |r: Result<(&'a str, Parser<'a>), ParseError<'a>>| r.map(|(s, q)| (Ret::Piece(s.as_bytes().to_vec()), q));
    match op {
        "trim" => Ok((Ret::None, p.trim())),
        "trim_start" => Ok((Ret::None, p.trim_start())),
        "trim_end" => Ok((Ret::None, p.trim_end())),
        "trim_matches" => Ok((Ret::None, pp!(trim_matches))),
        "trim_start_matches" => Ok((Ret::None, pp!(trim_start_matches))),
        "trim_end_matches" => Ok((Ret::None, pp!(trim_end_matches))),
        "strip_prefix" => pp!(strip_prefix).map(|q| (Ret::None, q)),
        "strip_suffix" => pp!(strip_suffix).map(|q| (Ret::None, q)),
        "find_skip" => pp!(find_skip).map(|q| (Ret::None, q)),
        "rfind_skip" => pp!(rfind_skip).map(|q| (Ret::None, q)),
        "split" => piece(pp!(split)),
        "rsplit" => piece(pp!(rsplit)),
        "split_keep" => piece(pp!(split_keep)),
        "split_terminator" => piece(pp!(split_terminator)),
        "rsplit_terminator" => piece(pp!(rsplit_terminator)),
        "skip" => Ok((Ret::None, p.skip(n))),
        "skip_back" => Ok((Ret::None, p.skip_back(n))),
        "parse_u8" => p.parse_u8().map(|(v, q)| (Ret::Int(v as i64), q)),
        "parse_i8" => p.parse_i8().map(|(v, q)| (Ret::Int(v as i64), q)),
        "parse_bool" => p.parse_bool().map(|(v, q)| (Ret::Bool(v), q)),
        "pm_strip_prefix" | "pm_strip_suffix" | "pm_find_skip" | "pm_rfind_skip" | "pm_trim_start_matches"
        | "pm_trim_end_matches" => Ok(apply_pm(p, op, n)),
        "into_error" => Err(p.into_error([ErrorKind::Find, ErrorKind::Strip, ErrorKind::ParseBool, ErrorKind::Other][n - 1])),
        "into_other_error" => Err(p.into_other_error(&"custom")),
        _ => panic!("unknown Parser op {op}"),
    }
}

/// parser_method! forms; `k` selects one of the alternative lists of Parser.tla's PmAlts
fn apply_pm<'a>(mut p: Parser<'a>, op: &str, k: usize) -> (Ret, Parser<'a>) {
    macro_rules! branching {
        ($form:ident) => {
            match k {
                1 => konst::parser_method! {p, $form; "a" => 1, "a," => 2, _ => 0},
                2 => konst::parser_method! {p, $form; "ñ" => 1, "," => 2, _ => 0},
                _ => konst::parser_method! {p, $form; "a," => 1, " " => 2, _ => 0},
            }
        };
    }
    macro_rules! trimming {
        ($form:ident) => {{
            match k {
                1 => konst::parser_method! {p, $form; "a" | "a,"},
                2 => konst::parser_method! {p, $form; "ñ" | ","},
                _ => konst::parser_method! {p, $form; "a," | " "},
            };
            0
        }};
    }
    let b: i64 = match op {
        "pm_strip_prefix" => branching!(strip_prefix),
        "pm_strip_suffix" => branching!(strip_suffix),
        "pm_find_skip" => branching!(find_skip),
        "pm_rfind_skip" => branching!(rfind_skip),
        "pm_trim_start_matches" => trimming!(trim_start_matches),
        _ => trimming!(trim_end_matches),
    };
    (Ret::Int(b), p)
}

/// a user type hooked into parse_with! through HasParser (beyond the listed properties: compared as extra)
pub struct UserTag;
impl konst::parsing::HasParser for UserTag {
    type Parser = UserTag;
}
impl UserTag {
    pub const fn parse_with(p: Parser<'_>) -> konst::parsing::ParseValueResult<'_, UserTag> {
        match p.strip_prefix("a") {
            Ok(q) => Ok((UserTag, q)),
            Err(e) => Err(e),
        }
    }
}

/// projection of the parser on the abstract state; lo/hi by pointer position inside `orig`
pub fn observe(p: Parser<'_>, orig: &str, base: usize) -> V {
    let rem = p.remainder();
    let so = p.start_offset();
    // where the remainder really sits inside the original (None when it is not a window of it)
    let pos = if str_inside(rem, orig) && !rem.is_empty() {
        Some(rem.as_ptr() as usize - orig.as_ptr() as usize)
    } else if rem.is_empty() {
        // an empty remainder has no observable position; trust the reported offset if it is in range
        so.checked_sub(base).filter(|x| *x <= orig.len())
    } else {
        None
    };
    match pos {
        Some(lo) => json!({"lo": lo, "hi": lo + rem.len(), "so": so, "eo": p.end_offset(),
                           "dir": dir_s(p.parse_direction())}),
        None => json!({"lo": -1, "hi": -1, "so": so, "eo": p.end_offset(), "dir": dir_s(p.parse_direction()),
                       "rem": js(rem)}),
    }
}

fn op_fields(o: &V) -> (String, String, usize) {
    let pat = String::from_utf8(bytes_of(&o["p"])).expect("pattern is UTF-8");
    (o["op"].as_str().unwrap().to_string(), pat, o["n"].as_u64().unwrap() as usize)
}

pub fn replay(s: &mut Summary, v: &V) {
    let orig_b = bytes_of(&v["s"]);
    let orig = std::str::from_utf8(&orig_b).expect("Parser strings are UTF-8");
    let base = v["base"].as_u64().unwrap() as usize;
    let mut p = if base == 0 { Parser::new(orig) } else { Parser::with_start_offset(orig, base) };
    for o in v["path"].as_array().unwrap() {
        let (op, pat, n) = op_fields(o);
        match apply(p, &op, &pat, n, false) {
            Ok((_, q)) => p = q,
            Err(_) => {
                s.monitor(&format!("Parser::{op}"), false, "an operation of the witness path failed on the real parser");
                return;
            }
        }
    }
    // a base that does not fit u32 (the struct stores the start offset in a u32): OffsetInv (so = base + lo) must
    // hold for it as well; checked once per original string, at the initial state (C13 only: KH_BIG_BASE)
    if base == 10 && v["path"].as_array().unwrap().is_empty() && std::env::var("KH_BIG_BASE").is_ok() {
        let big = (1usize << 32) + 10;
        let q = Parser::with_start_offset(orig, big);
        s.check("Parser::with_start_offset(base >= 2^32)", json!([q.start_offset(), q.end_offset()]), &json!([big, big + orig.len()]));
    }
    let st = &v["st"];
    let exp_st = json!({"lo": st["lo"], "hi": st["hi"], "so": st["so"],
                        "eo": st["so"].as_u64().unwrap() + st["hi"].as_u64().unwrap() - st["lo"].as_u64().unwrap(),
                        "dir": st["dir"]});
    // (C18 replays the same graph restricted to the parser_method! forms: the plain state is C13's business)
    if v.get("only_pm").is_none() {
        s.check("Parser/state", observe(p, orig, base), &exp_st);
    }
    // parse_with!(p, UserTag) must be the user's parser, i.e. strip_prefix("a") on this state
    if v.get("only_pm").is_none() {
        let via_macro = match konst::parse_with!(p, UserTag) { Ok((_, q)) => observe(q, orig, base), Err(e) => json!({"err": e.offset()}) };
        let direct = match p.strip_prefix("a") { Ok(q) => observe(q, orig, base), Err(e) => json!({"err": e.offset()}) };
        s.extra("parse_with!(_, user type)", via_macro, &direct);
    }
    for out in v["outs"].as_array().unwrap() {
        let (op, pat, n) = op_fields(&out["o"]);
        let one_char = pat.chars().count() == 1;
        for as_char in [false, true] {
            if as_char && !one_char {
                continue;
            }
            let name = format!("Parser::{op}{}", if as_char { "/char" } else { "" });
            // beyond the listed properties: error kind of every operation, Display and panic text
            if out["ok"] == json!(0) {
                if let Ok(Err(e)) = std::panic::catch_unwind(std::panic::AssertUnwindSafe(|| apply(p, &op, &pat, n, as_char))) {
                    let m = &out["msg"];
                    let text = format!("{}{}{}{}", m["pre"].as_str().unwrap(), m["off"], m["mid"].as_str().unwrap(), m["suf"].as_str().unwrap());
                    s.extra("ParseError::kind", json!(kind_s(e.kind())), &out["xkind"]);
                    s.extra("ParseError/Display", json!(e.to_string()), &json!(text));
                    let pm = std::panic::catch_unwind(std::panic::AssertUnwindSafe(|| -> () { e.panic() }))
                        .err().map(|b| b.downcast_ref::<String>().cloned().or_else(|| b.downcast_ref::<&str>().map(|x| x.to_string())).unwrap_or_default());
                    // const_panic may wrap the text in a newline
                    s.extra("ParseError::panic", json!(pm.map(|x| x.trim().to_string())), &json!(Some(text)));
                }
            }
            let got = catch(std::panic::AssertUnwindSafe(|| match apply(p, &op, &pat, n, as_char) {
                Ok((r, q)) => {
                    let mut o = observe(q, orig, base);
                    o["ok"] = json!(1);
                    o["ret"] = r.to_json();
                    o
                }
                Err(e) => {
                    let kind = if op == "split" || op == "rsplit" { kind_s(e.kind()) } else { "" };
                    json!({"ok": 0, "off": e.offset(), "dir": dir_s(e.error_direction()), "kind": kind})
                }
            }));
            let exp = if out["ok"] == json!(1) {
                json!({"ok": 1, "lo": out["lo"], "hi": out["hi"], "so": out["so"],
                       "eo": out["so"].as_u64().unwrap() + out["hi"].as_u64().unwrap() - out["lo"].as_u64().unwrap(),
                       "dir": out["dir"], "ret": out["ret"]})
            } else {
                json!({"ok": 0, "off": out["off"], "dir": out["dir"], "kind": out["kind"]})
            };
            if op == "into_error" || op == "into_other_error" {
                s.extra(&name, got, &exp);
            } else {
                s.check(&name, got, &exp);
            }
        }
    }
}

/// long random histories; one event per call: {ev:"init",s,base} | {ev:op,p,n,ok,ret|err..., st}
pub fn record(rng: &mut SmallRng, n_events: usize, out: &mut dyn Write) {
    let alpha: [&str; 13] = ["a", ",", "ñ", " ", "1", "-", "\t", "b", "√", ":", "/", "9", "0"];
    let pats: [&str; 6] = ["a", "ñ", ",", "a,", " ", "ab"];
    const OPS: [&str; 26] = ["pm_strip_prefix", "pm_strip_suffix", "pm_find_skip", "pm_rfind_skip", "pm_trim_start_matches",
        "pm_trim_end_matches", "trim", "trim_start", "trim_end", "trim_matches", "trim_start_matches",
        "trim_end_matches", "strip_prefix", "strip_suffix", "find_skip", "rfind_skip", "split", "rsplit",
        "split_keep", "split_terminator", "rsplit_terminator", "skip", "skip_back", "parse_u8", "parse_i8",
        "parse_bool"];
    let mut left = n_events;
    while left > 0 {
        let nchars = if rng.gen_range(0..25) == 0 { rng.gen_range(256..=300) } else { rng.gen_range(0..=40) };
        let k = rng.gen_range(2..=alpha.len());
        let mut s = String::new();
        for _ in 0..nchars {
            match rng.gen_range(0..12) {
                0 => s.push_str("true"),
                1 => s.push_str("false"),
                2 => s.push_str(&rng.gen_range(0..400u32).to_string()),
                _ => s.push_str(alpha[rng.gen_range(0..k)]),
            }
        }
        let base = if rng.gen_bool(0.5) { 0 } else { rng.gen_range(1..1000usize) };
        let mut p = if base == 0 { Parser::new(&s) } else { Parser::with_start_offset(&s, base) };
        writeln!(out, "{}", json!({"ev": "init", "s": js(&s), "base": base})).unwrap();
        left -= 1;
        let steps = rng.gen_range(1..=60);
        for _ in 0..steps {
            if left == 0 {
                break;
            }
            let op = OPS[rng.gen_range(0..OPS.len())];
            let pat = pats[rng.gen_range(0..pats.len())];
            let n = if op.starts_with("pm_") { rng.gen_range(1..=3) } else if rng.gen_bool(0.2) { rng.gen_range(0..100) } else { rng.gen_range(0..4) };
            let as_char = pat.chars().count() == 1 && rng.gen_bool(0.5);
            let r = std::panic::catch_unwind(std::panic::AssertUnwindSafe(|| apply(p, op, pat, n, as_char)));
            let ev = match r {
                Ok(Ok((ret, q))) => {
                    p = q;
                    json!({"ev": op, "p": js(pat), "n": n, "ok": 1, "ret": ret.to_json(), "st": observe(p, &s, base)})
                }
                Ok(Err(e)) => json!({"ev": op, "p": js(pat), "n": n, "ok": 0, "off": e.offset(),
                                     "dir": dir_s(e.error_direction()), "kind": kind_s(e.kind())}),
                Err(_) => json!({"ev": op, "p": js(pat), "n": n, "ok": 2}),
            };
            writeln!(out, "{}", ev).unwrap();
            left -= 1;
        }
    }
}
