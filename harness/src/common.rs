//! Shared plumbing of the replay / record harness.
use serde_json::{json, Map, Value};
use std::collections::BTreeMap;

pub type V = Value;

/// Outcome of replaying a vector / behaviour file.
#[derive(Default)]
pub struct Summary {
    pub lines: u64,
    pub checks: u64,
    pub n_mismatch: u64,
    pub n_ref_mismatch: u64,
    pub mismatches: Vec<V>,
    pub ref_mismatches: Vec<V>,
    pub per_op: BTreeMap<String, u64>,
    pub notes: BTreeMap<String, u64>,
    pub mismatch_by_variant: BTreeMap<String, u64>,
    /// behaviour that the specification also models but that no listed property states
    /// (reported, never a violation)
    pub extra_checks: u64,
    pub extra_mismatches: Vec<V>,
    pub cur_line: u64,
    pub cur: V,
}

pub const KEEP: usize = 200;

impl Summary {
    pub fn op(&mut self, name: &str) {
        *self.per_op.entry(name.to_string()).or_insert(0) += 1;
    }
    pub fn note(&mut self, name: &str) {
        *self.notes.entry(name.to_string()).or_insert(0) += 1;
    }
    /// compare the real code's observation with the specification's expectation
    pub fn check(&mut self, variant: &str, got: V, exp: &V) {
        self.checks += 1;
        self.op(variant);
        if &got != exp {
            self.n_mismatch += 1;
            let c = self.mismatch_by_variant.entry(variant.to_string()).or_insert(0);
            *c += 1;
            // keep the first few of every variant so that each defect is represented
            if *c <= 5 && self.mismatches.len() < KEEP {
                self.mismatches.push(json!({"line": self.cur_line, "variant": variant,
                    "got": got, "exp": exp, "rec": self.cur}));
            }
        }
    }
    /// compare an observation that lies outside the listed properties (specification growth):
    /// a disagreement is reported as EXTRA-MISMATCH and never counted as a property violation
    pub fn extra(&mut self, variant: &str, got: V, exp: &V) {
        self.extra_checks += 1;
        self.op(&format!("extra:{variant}"));
        if &got != exp {
            self.note(&format!("EXTRA-MISMATCH (outside the listed properties) {variant}"));
            if self.extra_mismatches.len() < 20 {
                self.extra_mismatches.push(json!({"line": self.cur_line, "variant": variant, "got": got, "exp": exp, "rec": self.cur}));
            }
        }
    }
    /// sanity guard: the specification's reference vs real std (a disagreement is a SPEC error)
    pub fn guard(&mut self, variant: &str, std_val: V, exp: &V) {
        if &std_val != exp {
            self.n_ref_mismatch += 1;
            if self.ref_mismatches.len() < KEEP {
                self.ref_mismatches.push(json!({"line": self.cur_line, "variant": variant,
                    "std": std_val, "exp": exp, "rec": self.cur}));
            }
        }
    }
    /// a monitor (C01-style) that must hold on the real result
    pub fn monitor(&mut self, variant: &str, ok: bool, what: &str) {
        self.checks += 1;
        if !ok {
            self.n_mismatch += 1;
            let c = self.mismatch_by_variant.entry(variant.to_string()).or_insert(0);
            *c += 1;
            if *c <= 5 && self.mismatches.len() < KEEP {
                self.mismatches.push(json!({"line": self.cur_line, "variant": variant,
                    "monitor": what, "rec": self.cur}));
            }
        }
    }
    pub fn to_json(&self) -> V {
        json!({
            "lines": self.lines, "checks": self.checks,
            "n_mismatch": self.n_mismatch, "n_ref_mismatch": self.n_ref_mismatch,
            "mismatches": self.mismatches, "ref_mismatches": self.ref_mismatches,
            "per_op": self.per_op, "notes": self.notes,
            "mismatch_by_variant": self.mismatch_by_variant,
            "extra_checks": self.extra_checks, "extra_mismatches": self.extra_mismatches,
        })
    }
}

pub fn bytes_of(v: &V) -> Vec<u8> {
    v.as_array()
        .unwrap_or_else(|| panic!("expected byte array, got {v}"))
        .iter()
        .map(|x| x.as_u64().expect("byte") as u8)
        .collect()
}
pub fn ints_of(v: &V) -> Vec<i64> {
    v.as_array().expect("int array").iter().map(|x| x.as_i64().expect("int")).collect()
}
pub fn jb(b: &[u8]) -> V {
    Value::Array(b.iter().map(|x| json!(*x)).collect())
}
pub fn js(s: &str) -> V {
    jb(s.as_bytes())
}
pub fn none() -> V {
    json!({"none": 1})
}
pub fn some(v: V) -> V {
    json!({ "some": v })
}
pub fn opt<T>(o: Option<T>, f: impl FnOnce(T) -> V) -> V {
    match o {
        None => none(),
        Some(x) => some(f(x)),
    }
}
pub fn panic_v() -> V {
    json!({"panic": 1})
}
pub fn obj(pairs: &[(&str, V)]) -> V {
    let mut m = Map::new();
    for (k, v) in pairs {
        m.insert(k.to_string(), v.clone());
    }
    Value::Object(m)
}

/// run `f`, mapping a panic of the code under test to the value {"panic":1}
pub fn catch<F: FnOnce() -> V + std::panic::UnwindSafe>(f: F) -> V {
    match std::panic::catch_unwind(f) {
        Ok(v) => v,
        Err(_) => panic_v(),
    }
}

/// `sub` is a (possibly empty) window of `parent`: pointer range containment.
/// Empty results are exempt (the property speaks of non-empty results).
pub fn inside<T>(sub: &[T], parent: &[T]) -> bool {
    if sub.is_empty() {
        return true;
    }
    let sz = std::mem::size_of::<T>().max(1);
    let p0 = parent.as_ptr() as usize;
    let p1 = p0 + parent.len() * sz;
    let s0 = sub.as_ptr() as usize;
    let s1 = s0 + sub.len() * sz;
    if std::mem::size_of::<T>() == 0 {
        return s0 == p0 && sub.len() <= parent.len();
    }
    p0 <= s0 && s1 <= p1
}
/// `sub` is a sub-string of `parent` that starts and ends on char boundaries of it
pub fn str_inside(sub: &str, parent: &str) -> bool {
    if sub.is_empty() {
        return true;
    }
    if !inside(sub.as_bytes(), parent.as_bytes()) {
        return false;
    }
    let off = sub.as_ptr() as usize - parent.as_ptr() as usize;
    std::str::from_utf8(sub.as_bytes()).is_ok()
        && parent.is_char_boundary(off)
        && parent.is_char_boundary(off + sub.len())
}

/// evaluate `$body` once per byte-pattern kind that can express the needle `$n`
#[macro_export]
macro_rules! for_bytes_pats {
    ($n:expr, |$kind:ident, $p:ident| $body:block) => {{
        let __n: &[u8] = $n;
        {
            let $kind = "bytes";
            let $p: &[u8] = __n;
            $body
        }
        macro_rules! __arr {
            ($N:literal) => {{
                let $kind = "array";
                let __a: [u8; $N] = __n.try_into().unwrap();
                let $p: &[u8; $N] = &__a;
                $body
            }};
        }
        match __n.len() {
            0 => __arr!(0),
            1 => __arr!(1),
            2 => __arr!(2),
            3 => __arr!(3),
            4 => __arr!(4),
            5 => __arr!(5),
            6 => __arr!(6),
            7 => __arr!(7),
            8 => __arr!(8),
            _ => {}
        }
        if let Ok(__s) = std::str::from_utf8(__n) {
            {
                let $kind = "str";
                let $p: &str = __s;
                $body
            }
            let mut __cs = __s.chars();
            if let (Some(__c), None) = (__cs.next(), __cs.next()) {
                let $kind = "char";
                let $p: &char = &__c;
                $body
            }
        }
    }};
}

/// evaluate `$body` once per string-pattern kind (`&str`, `char`) that can express `$n`
#[macro_export]
macro_rules! for_str_pats {
    ($n:expr, |$kind:ident, $p:ident| $body:block) => {{
        let __s: &str = $n;
        {
            let $kind = "str";
            let $p: &str = __s;
            $body
        }
        let mut __cs = __s.chars();
        if let (Some(__c), None) = (__cs.next(), __cs.next()) {
            let $kind = "char";
            let $p: char = __c;
            $body
        }
    }};
}
