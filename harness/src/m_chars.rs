//! C07 — chars / char_indices state graph replay, random histories, and the complete
//! encode / from_u32 / decode sweeps (blocks of 256 values validated by TLC).
use crate::common::*;
use konst::{chr, string as kstr};
use rand::{rngs::SmallRng, Rng};
use serde_json::json;
use std::io::Write;

pub enum It<'a> {
    C(kstr::Chars<'a>),
    RC(kstr::RChars<'a>),
    CI(kstr::CharIndices<'a>),
    RCI(kstr::RCharIndices<'a>),
}
type Item = (Option<usize>, u32);

impl<'a> It<'a> {
    pub fn new(kind: &str, s: &'a str) -> It<'a> {
        if kind == "chars" { It::C(kstr::chars(s)) } else { It::CI(kstr::char_indices(s)) }
    }
    pub fn next(&self) -> Option<(Item, It<'a>)> {
        match self {
            It::C(i) => i.copy().next().map(|(c, n)| ((None, c as u32), It::C(n))),
            It::RC(i) => i.copy().next().map(|(c, n)| ((None, c as u32), It::RC(n))),
            It::CI(i) => i.copy().next().map(|((o, c), n)| ((Some(o), c as u32), It::CI(n))),
            It::RCI(i) => i.copy().next().map(|((o, c), n)| ((Some(o), c as u32), It::RCI(n))),
        }
    }
    pub fn next_back(&self) -> Option<(Item, It<'a>)> {
        match self {
            It::C(i) => i.copy().next_back().map(|(c, n)| ((None, c as u32), It::C(n))),
            It::RC(i) => i.copy().next_back().map(|(c, n)| ((None, c as u32), It::RC(n))),
            It::CI(i) => i.copy().next_back().map(|((o, c), n)| ((Some(o), c as u32), It::CI(n))),
            It::RCI(i) => i.copy().next_back().map(|((o, c), n)| ((Some(o), c as u32), It::RCI(n))),
        }
    }
    pub fn rev(&self) -> It<'a> {
        match self {
            It::C(i) => It::RC(i.copy().rev()),
            It::RC(i) => It::C(i.copy().rev()),
            It::CI(i) => It::RCI(i.copy().rev()),
            It::RCI(i) => It::CI(i.copy().rev()),
        }
    }
    pub fn as_str(&self) -> Option<&'a str> {
        match self {
            It::C(i) => Some(i.as_str()),
            It::CI(i) => Some(i.as_str()),
            _ => None,
        }
    }
}

fn item_json(i: Option<Item>, exp: &V) -> V {
    match i {
        None => none(),
        // `chars` has no offsets: take the expected one so that only the char is compared
        Some((None, c)) => some(json!([exp.get("some").map_or(json!(0), |e| e[0].clone()), c])),
        Some((Some(o), c)) => some(json!([o, c])),
    }
}

pub fn replay(s: &mut Summary, v: &V) {
    let kind = v["kind"].as_str().unwrap();
    let bytes = bytes_of(&v["s"]);
    let st = std::str::from_utf8(&bytes).expect("valid UTF-8");
    let mut it = It::new(kind, st);
    for op in v["path"].as_array().unwrap() {
        let r = match op.as_str().unwrap() {
            "next" => it.next().map(|x| x.1),
            "next_back" => it.next_back().map(|x| x.1),
            _ => Some(it.rev()),
        };
        match r {
            Some(n) => it = n,
            None => { s.monitor(&format!("{kind}/path"), false, "witness path step returned None"); return; }
        }
    }
    let fwd = v["fwd"].as_bool().unwrap();
    let tag = format!("{kind}{}", if fwd { "" } else { "/Rev" });
    s.check(&format!("{tag}::next"), item_json(it.next().map(|x| x.0), &v["next"]), &v["next"]);
    s.check(&format!("{tag}::next_back"), item_json(it.next_back().map(|x| x.0), &v["next_back"]), &v["next_back"]);
    let lo = v["st"]["lo"].as_u64().unwrap() as usize;
    let hi = v["st"]["hi"].as_u64().unwrap() as usize;
    if let Some(a) = it.as_str() {
        s.check(&format!("{tag}::as_str"), js(a), &jb(&bytes[lo..hi]));
        s.monitor(&format!("{tag}::as_str"), str_inside(a, st), "as_str is a UTF-8 window of the argument");
    }
    // reference vs std on the remaining window
    let rem = &st[lo..hi];
    let (sn, sb) = if kind == "chars" {
        let f = |c: Option<char>, e: &V| item_json(c.map(|c| (None, c as u32)), e);
        let (en, eb) = if fwd { (&v["next"], &v["next_back"]) } else { (&v["next_back"], &v["next"]) };
        (f(rem.chars().next(), en), f(rem.chars().next_back(), eb))
    } else {
        let f = |c: Option<(usize, char)>| match c { None => none(), Some((o, c)) => some(json!([o + lo, c as u32])) };
        (f(rem.char_indices().next()), f(rem.char_indices().next_back()))
    };
    let (en, eb) = if fwd { (&v["next"], &v["next_back"]) } else { (&v["next_back"], &v["next"]) };
    s.guard(&format!("std::{kind}::next"), sn, en);
    s.guard(&format!("std::{kind}::next_back"), sb, eb);
}

/// random histories on random strings of arbitrary scalar values
pub fn record(rng: &mut SmallRng, n_events: usize, out: &mut dyn Write) {
    let mut left = n_events;
    let edges: [u32; 14] = [0, 0x7F, 0x80, 0x7FF, 0x800, 0xFFF, 0x1000, 0xD7FF, 0xE000, 0xFFFF, 0x10000, 0x3FFFF, 0x40000, 0x10FFFF];
    while left > 0 {
        let kind = if rng.gen_bool(0.5) { "chars" } else { "char_indices" };
        let n = rng.gen_range(0..30);
        let mut s: String = (0..n).map(|_| {
            let c = if rng.gen_bool(0.5) { edges[rng.gen_range(0..edges.len())] } else { rng.gen_range(0..0x110000) };
            char::from_u32(c).unwrap_or('x')
        }).collect();
        // one string in four: long ASCII runs (around 8 / 16 / 32 / 64 bytes) with a multi-byte character near an end
        if rng.gen_range(0..4) == 0 {
            let run = [7usize, 8, 9, 15, 16, 17, 24, 31, 32, 33, 64][rng.gen_range(0..11)];
            let ascii: String = (0..run).map(|i| (b'a' + (i % 26) as u8) as char).collect();
            let wide = char::from_u32(edges[rng.gen_range(2..edges.len())]).unwrap_or('ñ');
            s = match rng.gen_range(0..4) {
                0 => format!("{ascii}{wide}"),
                1 => format!("{wide}{ascii}"),
                2 => format!("{ascii}{wide}{}", &ascii[..rng.gen_range(0..7)]),
                _ => format!("{}{wide}{ascii}", &ascii[..rng.gen_range(0..7)]),
            };
        }
        let mut it = It::new(kind, &s);
        writeln!(out, "{}", json!({"ev": "init", "kind": kind, "s": js(&s)})).unwrap();
        left -= 1;
        for _ in 0..rng.gen_range(1..70) {
            if left == 0 { break; }
            let c = rng.gen_range(0..10);
            let (ev, item) = if c == 0 {
                it = it.rev();
                ("rev", None)
            } else if c < 6 {
                let r = it.next(); let i = r.as_ref().map(|x| x.0); if let Some(x) = r { it = x.1; } ("next", i)
            } else {
                let r = it.next_back(); let i = r.as_ref().map(|x| x.0); if let Some(x) = r { it = x.1; } ("next_back", i)
            };
            let (has, off, ch) = match item { None => (0, 0, 0), Some((o, c)) => (1, o.map_or(-1, |x| x as i64), c) };
            let (hs, a) = match it.as_str() { None => (0, json!([])), Some(a) => (1, js(a)) };
            writeln!(out, "{}", json!({"ev": ev, "has": has, "off": off, "ch": ch, "hs": hs, "as_str": a})).unwrap();
            left -= 1;
        }
    }
}

/// complete sweep: block k covers the values 256k..256k+255; for every value: from_u32, encode_utf8
/// (bytes + as_str validity) and the value decoded back by chars().next()
pub fn record_sweep(first_block: u32, n_blocks: u32, out: &mut dyn Write) {
    for b in first_block..first_block + n_blocks {
        let base = b * 256;
        let mut enc: Vec<V> = Vec::with_capacity(256);
        let mut dec: Vec<V> = Vec::with_capacity(256);
        for i in 0..256u32 {
            match chr::from_u32(base + i) {
                None => { enc.push(json!([])); dec.push(json!(-1)); }
                Some(c) => {
                    let e = chr::encode_utf8(c);
                    let ok = std::str::from_utf8(e.as_bytes()).is_ok() && e.as_str().as_bytes() == e.as_bytes();
                    enc.push(if ok { jb(e.as_bytes()) } else { json!([-1]) });
                    let d = kstr::chars(e.as_str()).next().map_or(-2, |(c, _)| c as i64);
                    let db = kstr::chars(e.as_str()).next_back().map_or(-2, |(c, _)| c as i64);
                    dec.push(json!(if d == db { d } else { -3 }));
                }
            }
        }
        writeln!(out, "{}", json!({"ev": "block", "base": base, "enc": enc, "dec": dec})).unwrap();
    }
    // boundary values beyond the swept range
    // (every power of two from 2^21, and scalar values with a high byte / high bit added)
    let mut big: Vec<u32> = vec![0x7FFF_FFFF, 0x8000_0000, 0xFFFF_FFFF, 0x0011_0000, 0x0012_0000, 0x0100_0041, 0xFF10_FFFF, 0x8000_0041,
                                 0x0101_0000, 0x0020_0000, 0xFFFF_0000, 0x0110_0000, 0x1000_0000 | 0xD7FF];
    big.extend((21..32).map(|k| 1u32 << k));
    for n in big {
        writeln!(out, "{}", json!({"ev": "big", "some": chr::from_u32(n).is_some() as u8})).unwrap();
    }
}
