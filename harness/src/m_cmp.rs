//! C16 — comparison functions and macros.  Vectors are over abstract digits / anchor positions which
//! are mapped order-preservingly into every supported type.
use crate::common::*;
use konst::{assertc_eq, assertc_ne, const_cmp, const_cmp_for, const_eq, const_eq_for};
use rand::{rngs::SmallRng, Rng};
use serde_json::json;
use std::cmp::Ordering;
use std::io::Write;
use std::num::*;

fn ord_s(o: Ordering) -> &'static str {
    match o {
        Ordering::Less => "Less",
        Ordering::Equal => "Equal",
        Ordering::Greater => "Greater",
    }
}

trait Anchors: Sized + Copy {
    /// 7 strictly increasing values MIN, MIN+1, .., 0.., MAX-1, MAX
    fn anchors() -> Vec<Self>;
    /// 3 strictly increasing values for the digits 0,1,2
    fn digits() -> Vec<Self> {
        let a = Self::anchors();
        vec![a[0], a[a.len() / 2], a[a.len() - 1]]
    }
    /// a second table of 3 strictly increasing values whose byte representations are ordered differently from the
    /// numbers themselves (1 < 256 but [1,0] > [0,1] little-endian; -1 is all ones): a comparison through a byte
    /// view or with the wrong signedness gets these wrong
    fn digits2() -> Vec<Self> {
        Self::digits()
    }
}
thread_local! { static TABLE2: std::cell::Cell<bool> = std::cell::Cell::new(false); }
macro_rules! anchors_u { ($($t:ty),*) => {$( impl Anchors for $t { fn anchors() -> Vec<$t> {
    vec![0, 1, 2, <$t>::MAX / 2, <$t>::MAX / 2 + 1, <$t>::MAX - 1, <$t>::MAX] }
    fn digits2() -> Vec<$t> { if <$t>::BITS == 8 { Self::digits() } else { vec![1, 256u16 as $t, <$t>::MAX] } } } )*} }
macro_rules! anchors_i { ($($t:ty),*) => {$( impl Anchors for $t { fn anchors() -> Vec<$t> {
    vec![<$t>::MIN, <$t>::MIN + 1, -1, 0, 1, <$t>::MAX - 1, <$t>::MAX] }
    fn digits2() -> Vec<$t> { if <$t>::BITS == 8 { vec![-1, 1, <$t>::MAX] } else { vec![-1, 1, 256i16 as $t] } } } )*} }
anchors_u!(u8, u16, u32, u64, u128, usize);
anchors_i!(i8, i16, i32, i64, i128, isize);
impl Anchors for char {
    fn anchors() -> Vec<char> {
        vec!['\0', 'a', '\u{D7FF}', '\u{E000}', '\u{FFFF}', '\u{10000}', '\u{10FFFF}']
    }
    fn digits2() -> Vec<char> {
        vec!['a', '\u{100}', '\u{10000}']
    }
}
impl Anchors for bool {
    fn anchors() -> Vec<bool> {
        vec![false, true]
    }
    fn digits() -> Vec<bool> {
        vec![false, true]
    }
}

fn map_digits<T: Anchors>(ds: &[i64]) -> Option<Vec<T>> {
    let d = if TABLE2.with(|c| c.get()) { T::digits2() } else { T::digits() };
    ds.iter().map(|x| d.get(*x as usize).copied()).collect()
}

/// flat sequences through the per-type slice functions and the macros
macro_rules! flat_type {
    ($s:ident, $l:ident, $r:ident, $exp_eq:ident, $exp_cmp:ident, $t:ty, $eqf:path, $cmpf:path, $oeqf:path, $ocmpf:path) => {{
        if let (Some(lv), Some(rv)) = (map_digits::<$t>(&$l), map_digits::<$t>(&$r)) {
            let (ls, rs): (&[$t], &[$t]) = (&lv, &rv);
            let tn = stringify!($t);
            $s.check(&format!("eq_slice/{tn}"), json!($eqf(ls, rs)), &$exp_eq);
            $s.check(&format!("cmp_slice/{tn}"), json!(ord_s($cmpf(ls, rs))), &$exp_cmp);
            $s.check(&format!("eq_option_slice/{tn}"), json!($oeqf(Some(ls), Some(rs))), &$exp_eq);
            $s.check(&format!("cmp_option_slice/{tn}"), json!(ord_s($ocmpf(Some(ls), Some(rs)))), &$exp_cmp);
            $s.check(&format!("const_eq!/[{tn}]"), json!(const_eq!(ls, rs)), &$exp_eq);
            $s.check(&format!("const_cmp!/[{tn}]"), json!(ord_s(const_cmp!(ls, rs))), &$exp_cmp);
            $s.check(&format!("const_eq_for!(slice)/{tn}"), json!(const_eq_for!(slice; ls, rs)), &$exp_eq);
            $s.check(&format!("const_cmp_for!(slice)/{tn}"), json!(ord_s(const_cmp_for!(slice; ls, rs))), &$exp_cmp);
            $s.check(&format!("const_eq_for!(slice,|x|)/{tn}"), json!(const_eq_for!(slice; ls, rs, |x| *x)), &$exp_eq);
            $s.check(&format!("const_cmp_for!(slice,|x|)/{tn}"), json!(ord_s(const_cmp_for!(slice; ls, rs, |x| *x))), &$exp_cmp);
            $s.check(&format!("const_cmp_for!(slice,|a,b|)/{tn}"),
                json!(ord_s(const_cmp_for!(slice; ls, rs, |a, b| konst::const_cmp!(*a, *b)))), &$exp_cmp);
            // laws on the real results
            $s.monitor(&format!("cmp_slice/{tn}"), $cmpf(rs, ls) == $cmpf(ls, rs).reverse(), "antisymmetry");
            $s.monitor(&format!("cmp_slice/{tn}"), ($cmpf(ls, rs) == Ordering::Equal) == $eqf(ls, rs), "Equal iff eq");
            $s.guard(&format!("std::cmp/[{tn}]"), json!(ord_s(ls.cmp(rs))), &$exp_cmp);
        }
    }};
}

macro_rules! scalar_type {
    ($s:ident, $i:ident, $j:ident, $exp_eq:ident, $exp_cmp:ident, $t:ty, $cmpf:path, $oeqf:path, $ocmpf:path) => {{
        let a = <$t as Anchors>::anchors();
        if let (Some(&x), Some(&y)) = (a.get($i), a.get($j)) {
            let tn = stringify!($t);
            $s.check(&format!("cmp/{tn}"), json!(ord_s($cmpf(x, y))), &$exp_cmp);
            $s.check(&format!("const_eq!/{tn}"), json!(const_eq!(x, y)), &$exp_eq);
            $s.check(&format!("const_cmp!/{tn}"), json!(ord_s(const_cmp!(x, y))), &$exp_cmp);
            $s.check(&format!("eq_option/{tn}(Some,Some)"), json!($oeqf(Some(x), Some(y))), &$exp_eq);
            $s.check(&format!("cmp_option/{tn}(Some,Some)"), json!(ord_s($ocmpf(Some(x), Some(y)))), &$exp_cmp);
            $s.check(&format!("const_cmp_for!(option)/{tn}"), json!(ord_s(const_cmp_for!(option; Some(x), Some(y)))), &$exp_cmp);
            $s.check(&format!("const_eq_for!(option)/{tn}"), json!(const_eq_for!(option; Some(x), Some(y))), &$exp_eq);
            // each argument expression is evaluated exactly once
            let mut n = 0u32;
            let e1 = const_eq!({ n += 1; x }, { n += 1; y });
            let c1 = const_cmp!({ n += 1; x }, { n += 1; y });
            let e2 = const_eq_for!(option; { n += 1; Some(x) }, { n += 1; Some(y) });
            $s.check(&format!("const_eq!/const_cmp!/{tn} evaluate their arguments once"), json!([e1, n == 6, ord_s(c1) == $exp_cmp.as_str().unwrap(), e2]),
                     &json!([$exp_eq.as_bool().unwrap(), true, true, $exp_eq.as_bool().unwrap()]));
            // assertc_eq! / assertc_ne! panic exactly when == / != is false (with and without a message)
            let eqb = $exp_eq.as_bool().unwrap();
            let p1 = std::panic::catch_unwind(|| assertc_eq!(x, y)).is_err();
            let p2 = std::panic::catch_unwind(|| assertc_ne!(x, y)).is_err();
            let p3 = std::panic::catch_unwind(|| assertc_eq!(x, y, "left ", x, " right ", y)).is_err();
            let p4 = std::panic::catch_unwind(|| assertc_ne!(x, y, "both ", x)).is_err();
            $s.check(&format!("assertc_eq!/{tn} panics"), json!([p1, p3]), &json!([!eqb, !eqb]));
            $s.check(&format!("assertc_ne!/{tn} panics"), json!([p2, p4]), &json!([eqb, eqb]));
            $s.guard(&format!("std::cmp/{tn}"), json!(ord_s(x.cmp(&y))), &$exp_cmp);
        }
    }};
}
macro_rules! nonzero_type {
    ($s:ident, $i:ident, $j:ident, $exp_eq:ident, $exp_cmp:ident, $nz:ty, $t:ty, $eqf:path, $cmpf:path, $oeqf:path, $ocmpf:path) => {{
        let a: Vec<$t> = <$t as Anchors>::anchors().into_iter().filter(|v| *v != 0).collect();
        if let (Some(&x), Some(&y)) = (a.get($i), a.get($j)) {
            let (x, y) = (<$nz>::new(x).unwrap(), <$nz>::new(y).unwrap());
            let tn = stringify!($nz);
            $s.check(&format!("eq/{tn}"), json!($eqf(x, y)), &$exp_eq);
            $s.check(&format!("cmp/{tn}"), json!(ord_s($cmpf(x, y))), &$exp_cmp);
            $s.check(&format!("eq_option/{tn}"), json!($oeqf(Some(x), Some(y))), &$exp_eq);
            $s.check(&format!("cmp_option/{tn}"), json!(ord_s($ocmpf(Some(x), Some(y)))), &$exp_cmp);
            $s.check(&format!("const_eq!/{tn}"), json!(const_eq!(x, y)), &$exp_eq);
            $s.check(&format!("const_cmp!/{tn}"), json!(ord_s(const_cmp!(x, y))), &$exp_cmp);
        }
    }};
}
macro_rules! option_scalar_type {
    ($s:ident, $l:ident, $r:ident, $exp_eq:ident, $exp_cmp:ident, $t:ty, $oeqf:path, $ocmpf:path) => {{
        let a = <$t as Anchors>::anchors();
        let get = |v: &V| -> Option<Option<$t>> {
            if v.get("none").is_some() { Some(None) } else { a.get(v["some"].as_u64().unwrap() as usize).map(|x| Some(*x)) }
        };
        if let (Some(x), Some(y)) = (get(&$l), get(&$r)) {
            let tn = stringify!($t);
            $s.check(&format!("eq_option/{tn}"), json!($oeqf(x, y)), &$exp_eq);
            $s.check(&format!("cmp_option/{tn}"), json!(ord_s($ocmpf(x, y))), &$exp_cmp);
            $s.check(&format!("const_eq!/Option<{tn}>"), json!(const_eq!(x, y)), &$exp_eq);
            $s.check(&format!("const_cmp!/Option<{tn}>"), json!(ord_s(const_cmp!(x, y))), &$exp_cmp);
            $s.check(&format!("const_eq_for!(option)/{tn}"), json!(const_eq_for!(option; x, y)), &$exp_eq);
            $s.check(&format!("const_cmp_for!(option)/{tn}"), json!(ord_s(const_cmp_for!(option; x, y))), &$exp_cmp);
            $s.guard(&format!("std::cmp/Option<{tn}>"), json!(ord_s(x.cmp(&y))), &$exp_cmp);
        }
    }};
}

fn digits_str(ds: &[i64]) -> String {
    ds.iter().map(|d| ['a', 'ñ', '🦀'][*d as usize]).collect()
}

/// kind "record": a user aggregate made comparable with impl_cmp!, const_eq!, const_cmp! and try_equal!
pub struct Rec3<'a> {
    a: i128,
    b: &'a str,
    c: Option<u8>,
}
konst::impl_cmp! {
    impl['a] Rec3<'a>;
    pub const fn const_eq(&self, other: &Self) -> bool {
        const_eq!(self.a, other.a) && const_eq!(self.b, other.b) && const_eq!(self.c, other.c)
    }
    pub const fn const_cmp(&self, other: &Self) -> Ordering {
        konst::try_equal!(const_cmp!(self.a, other.a));
        konst::try_equal!(const_cmp!(self.b, other.b));
        konst::try_equal!(const_cmp!(self.c, other.c))
    }
}
#[derive(PartialEq, Eq, PartialOrd, Ord)]
struct StdRec3<'a>(i128, &'a str, Option<u8>);

pub fn replay(s: &mut Summary, v: &V) {
    use konst::slice::cmp as sc;
    use konst::primitive::cmp as pc;
    use konst::nonzero::cmp as nc;
    let kind = v["kind"].as_str().unwrap();
    let opt = v["opt"].as_u64().unwrap() == 1;
    let exp_eq = v["eq"].clone();
    let exp_cmp = v["cmp"].clone();
    match (kind, opt) {
        ("flat", false) => {
            let l = ints_of(&v["l"]);
            let r = ints_of(&v["r"]);
            for table2 in [false, true] {
            TABLE2.with(|c| c.set(table2));
            flat_type!(s, l, r, exp_eq, exp_cmp, u8, konst::slice::eq_bytes, konst::slice::cmp_bytes, konst::slice::eq_option_bytes, konst::slice::cmp_option_bytes);
            flat_type!(s, l, r, exp_eq, exp_cmp, u8, sc::eq_slice_u8, sc::cmp_slice_u8, sc::eq_option_slice_u8, sc::cmp_option_slice_u8);
            flat_type!(s, l, r, exp_eq, exp_cmp, u16, sc::eq_slice_u16, sc::cmp_slice_u16, sc::eq_option_slice_u16, sc::cmp_option_slice_u16);
            flat_type!(s, l, r, exp_eq, exp_cmp, u32, sc::eq_slice_u32, sc::cmp_slice_u32, sc::eq_option_slice_u32, sc::cmp_option_slice_u32);
            flat_type!(s, l, r, exp_eq, exp_cmp, u64, sc::eq_slice_u64, sc::cmp_slice_u64, sc::eq_option_slice_u64, sc::cmp_option_slice_u64);
            flat_type!(s, l, r, exp_eq, exp_cmp, u128, sc::eq_slice_u128, sc::cmp_slice_u128, sc::eq_option_slice_u128, sc::cmp_option_slice_u128);
            flat_type!(s, l, r, exp_eq, exp_cmp, usize, sc::eq_slice_usize, sc::cmp_slice_usize, sc::eq_option_slice_usize, sc::cmp_option_slice_usize);
            flat_type!(s, l, r, exp_eq, exp_cmp, i8, sc::eq_slice_i8, sc::cmp_slice_i8, sc::eq_option_slice_i8, sc::cmp_option_slice_i8);
            flat_type!(s, l, r, exp_eq, exp_cmp, i16, sc::eq_slice_i16, sc::cmp_slice_i16, sc::eq_option_slice_i16, sc::cmp_option_slice_i16);
            flat_type!(s, l, r, exp_eq, exp_cmp, i32, sc::eq_slice_i32, sc::cmp_slice_i32, sc::eq_option_slice_i32, sc::cmp_option_slice_i32);
            flat_type!(s, l, r, exp_eq, exp_cmp, i64, sc::eq_slice_i64, sc::cmp_slice_i64, sc::eq_option_slice_i64, sc::cmp_option_slice_i64);
            flat_type!(s, l, r, exp_eq, exp_cmp, i128, sc::eq_slice_i128, sc::cmp_slice_i128, sc::eq_option_slice_i128, sc::cmp_option_slice_i128);
            flat_type!(s, l, r, exp_eq, exp_cmp, isize, sc::eq_slice_isize, sc::cmp_slice_isize, sc::eq_option_slice_isize, sc::cmp_option_slice_isize);
            flat_type!(s, l, r, exp_eq, exp_cmp, bool, sc::eq_slice_bool, sc::cmp_slice_bool, sc::eq_option_slice_bool, sc::cmp_option_slice_bool);
            flat_type!(s, l, r, exp_eq, exp_cmp, char, sc::eq_slice_char, sc::cmp_slice_char, sc::eq_option_slice_char, sc::cmp_option_slice_char);
            }
            TABLE2.with(|c| c.set(false));
            // strings
            let (ls, rs) = (digits_str(&l), digits_str(&r));
            let (ls, rs) = (ls.as_str(), rs.as_str());
            s.check("eq_str", json!(konst::eq_str(ls, rs)), &exp_eq);
            s.check("cmp_str", json!(ord_s(konst::cmp_str(ls, rs))), &exp_cmp);
            s.check("string::eq_str", json!(konst::string::eq_str(ls, rs)), &exp_eq);
            s.check("string::cmp_str", json!(ord_s(konst::string::cmp_str(ls, rs))), &exp_cmp);
            s.check("eq_option_str", json!(konst::string::eq_option_str(Some(ls), Some(rs))), &exp_eq);
            s.check("cmp_option_str", json!(ord_s(konst::string::cmp_option_str(Some(ls), Some(rs)))), &exp_cmp);
            s.check("const_eq!/str", json!(const_eq!(ls, rs)), &exp_eq);
            s.check("const_cmp!/str", json!(ord_s(const_cmp!(ls, rs))), &exp_cmp);
            s.guard("std::cmp/str", json!(ord_s(ls.cmp(rs))), &exp_cmp);
            // assertc_eq! / assertc_ne! panic exactly when == / != is false
            let eqb = exp_eq.as_bool().unwrap();
            let p1 = std::panic::catch_unwind(|| assertc_eq!(ls, rs)).is_err();
            let p2 = std::panic::catch_unwind(|| assertc_ne!(ls, rs)).is_err();
            s.check("assertc_eq!/str panics", json!(p1), &json!(!eqb));
            s.check("assertc_ne!/str panics", json!(p2), &json!(eqb));
        }
        ("record", false) => {
            let l = ints_of(&v["l"]);
            let r = ints_of(&v["r"]);
            let names = ["a", "ñ", "🦀"];
            let mk = |d: &[i64]| Rec3 { a: [i128::MIN, 0, i128::MAX][d[0] as usize], b: names[d[1] as usize], c: [None, Some(0), Some(255)][d[2] as usize] };
            let (x, y) = (mk(&l), mk(&r));
            s.check("impl_cmp!/const_eq!", json!(const_eq!(x, y)), &exp_eq);
            s.check("impl_cmp!/const_cmp!", json!(ord_s(const_cmp!(x, y))), &exp_cmp);
            s.check("impl_cmp!/coerce_to_cmp!.const_eq", json!(konst::coerce_to_cmp!(x).const_eq(&y)), &exp_eq);
            s.check("impl_cmp!/coerce_to_cmp!.const_cmp", json!(ord_s(konst::coerce_to_cmp!(&x).const_cmp(&y))), &exp_cmp);
            s.check("impl_cmp!/method", json!(ord_s(x.const_cmp(&y))), &exp_cmp);
            // Option of the user type through the _for macros
            let (ox, oy) = (Some(&x), Some(&y));
            s.check("const_cmp_for!(option)/user", json!(ord_s(konst::const_cmp_for!(option; ox, oy, |a, b| a.const_cmp(b)))), &exp_cmp);
            s.check("const_eq_for!(option)/user", json!(konst::const_eq_for!(option; ox, oy, |a, b| a.const_eq(b))), &exp_eq);
            let (sx, sy) = (StdRec3(x.a, x.b, x.c), StdRec3(y.a, y.b, y.c));
            s.guard("std derive(Ord)/record", json!(ord_s(sx.cmp(&sy))), &exp_cmp);
            s.guard("std derive(Eq)/record", json!(sx == sy), &exp_eq);
        }
        ("flat", true) => {
            // Option<&[T]> and Option<&str>
            let get = |x: &V| -> Option<Vec<i64>> { if x.get("none").is_some() { None } else { Some(ints_of(&x["some"])) } };
            let (l, r) = (get(&v["l"]), get(&v["r"]));
            let lu: Option<Vec<u8>> = l.as_ref().map(|d| map_digits::<u8>(d).unwrap());
            let ru: Option<Vec<u8>> = r.as_ref().map(|d| map_digits::<u8>(d).unwrap());
            let (a, b): (Option<&[u8]>, Option<&[u8]>) = (lu.as_deref(), ru.as_deref());
            s.check("eq_option_bytes", json!(konst::slice::eq_option_bytes(a, b)), &exp_eq);
            s.check("cmp_option_bytes", json!(ord_s(konst::slice::cmp_option_bytes(a, b))), &exp_cmp);
            s.check("const_eq!/Option<&[u8]>", json!(const_eq!(a, b)), &exp_eq);
            s.check("const_cmp!/Option<&[u8]>", json!(ord_s(const_cmp!(a, b))), &exp_cmp);
            let li: Option<Vec<i32>> = l.as_ref().map(|d| map_digits::<i32>(d).unwrap());
            let ri: Option<Vec<i32>> = r.as_ref().map(|d| map_digits::<i32>(d).unwrap());
            let (a2, b2): (Option<&[i32]>, Option<&[i32]>) = (li.as_deref(), ri.as_deref());
            s.check("eq_option_slice/i32", json!(sc::eq_option_slice_i32(a2, b2)), &exp_eq);
            s.check("cmp_option_slice/i32", json!(ord_s(sc::cmp_option_slice_i32(a2, b2))), &exp_cmp);
            let ls: Option<String> = l.as_ref().map(|d| digits_str(d));
            let rs: Option<String> = r.as_ref().map(|d| digits_str(d));
            let (a3, b3): (Option<&str>, Option<&str>) = (ls.as_deref(), rs.as_deref());
            s.check("eq_option_str", json!(konst::string::eq_option_str(a3, b3)), &exp_eq);
            s.check("cmp_option_str", json!(ord_s(konst::string::cmp_option_str(a3, b3))), &exp_cmp);
            s.check("const_cmp!/Option<&str>", json!(ord_s(const_cmp!(a3, b3))), &exp_cmp);
            s.guard("std::cmp/Option<&[u8]>", json!(ord_s(a.cmp(&b))), &exp_cmp);
        }
        ("nested", false) => {
            let conv = |x: &V| -> Vec<Vec<i64>> { x.as_array().unwrap().iter().map(ints_of).collect() };
            let (l, r) = (conv(&v["l"]), conv(&v["r"]));
            let lstr: Vec<String> = l.iter().map(|d| digits_str(d)).collect();
            let rstr: Vec<String> = r.iter().map(|d| digits_str(d)).collect();
            let (lr, rr): (Vec<&str>, Vec<&str>) = (lstr.iter().map(|x| x.as_str()).collect(), rstr.iter().map(|x| x.as_str()).collect());
            let (a, b): (&[&str], &[&str]) = (&lr, &rr);
            s.check("eq_slice_str", json!(sc::eq_slice_str(a, b)), &exp_eq);
            s.check("cmp_slice_str", json!(ord_s(sc::cmp_slice_str(a, b))), &exp_cmp);
            s.check("eq_option_slice_str", json!(sc::eq_option_slice_str(Some(a), Some(b))), &exp_eq);
            s.check("cmp_option_slice_str", json!(ord_s(sc::cmp_option_slice_str(Some(a), Some(b)))), &exp_cmp);
            s.check("const_eq!/[&str]", json!(const_eq!(a, b)), &exp_eq);
            s.check("const_cmp!/[&str]", json!(ord_s(const_cmp!(a, b))), &exp_cmp);
            s.check("const_cmp_for!(slice,cmp_str)/[&str]", json!(ord_s(const_cmp_for!(slice; a, b, konst::cmp_str))), &exp_cmp);
            s.check("const_eq_for!(slice,eq_str)/[&str]", json!(const_eq_for!(slice; a, b, konst::eq_str)), &exp_eq);
            let lb: Vec<Vec<u8>> = l.iter().map(|d| map_digits::<u8>(d).unwrap()).collect();
            let rb: Vec<Vec<u8>> = r.iter().map(|d| map_digits::<u8>(d).unwrap()).collect();
            let (lbr, rbr): (Vec<&[u8]>, Vec<&[u8]>) = (lb.iter().map(|x| &x[..]).collect(), rb.iter().map(|x| &x[..]).collect());
            let (c, d): (&[&[u8]], &[&[u8]]) = (&lbr, &rbr);
            s.check("eq_slice_bytes", json!(sc::eq_slice_bytes(c, d)), &exp_eq);
            s.check("cmp_slice_bytes", json!(ord_s(sc::cmp_slice_bytes(c, d))), &exp_cmp);
            s.check("cmp_option_slice_bytes", json!(ord_s(sc::cmp_option_slice_bytes(Some(c), Some(d)))), &exp_cmp);
            s.check("const_cmp!/[&[u8]]", json!(ord_s(const_cmp!(c, d))), &exp_cmp);
            s.guard("std::cmp/[&[u8]]", json!(ord_s(c.cmp(d))), &exp_cmp);
            s.guard("std::cmp/[&str]", json!(ord_s(a.cmp(b))), &exp_cmp);
        }
        ("scalar", false) => {
            let i = v["l"].as_u64().unwrap() as usize;
            let j = v["r"].as_u64().unwrap() as usize;
            scalar_type!(s, i, j, exp_eq, exp_cmp, u8, pc::cmp_u8, pc::eq_option_u8, pc::cmp_option_u8);
            scalar_type!(s, i, j, exp_eq, exp_cmp, u16, pc::cmp_u16, pc::eq_option_u16, pc::cmp_option_u16);
            scalar_type!(s, i, j, exp_eq, exp_cmp, u32, pc::cmp_u32, pc::eq_option_u32, pc::cmp_option_u32);
            scalar_type!(s, i, j, exp_eq, exp_cmp, u64, pc::cmp_u64, pc::eq_option_u64, pc::cmp_option_u64);
            scalar_type!(s, i, j, exp_eq, exp_cmp, u128, pc::cmp_u128, pc::eq_option_u128, pc::cmp_option_u128);
            scalar_type!(s, i, j, exp_eq, exp_cmp, usize, pc::cmp_usize, pc::eq_option_usize, pc::cmp_option_usize);
            scalar_type!(s, i, j, exp_eq, exp_cmp, i8, pc::cmp_i8, pc::eq_option_i8, pc::cmp_option_i8);
            scalar_type!(s, i, j, exp_eq, exp_cmp, i16, pc::cmp_i16, pc::eq_option_i16, pc::cmp_option_i16);
            scalar_type!(s, i, j, exp_eq, exp_cmp, i32, pc::cmp_i32, pc::eq_option_i32, pc::cmp_option_i32);
            scalar_type!(s, i, j, exp_eq, exp_cmp, i64, pc::cmp_i64, pc::eq_option_i64, pc::cmp_option_i64);
            scalar_type!(s, i, j, exp_eq, exp_cmp, i128, pc::cmp_i128, pc::eq_option_i128, pc::cmp_option_i128);
            scalar_type!(s, i, j, exp_eq, exp_cmp, isize, pc::cmp_isize, pc::eq_option_isize, pc::cmp_option_isize);
            scalar_type!(s, i, j, exp_eq, exp_cmp, bool, pc::cmp_bool, pc::eq_option_bool, pc::cmp_option_bool);
            scalar_type!(s, i, j, exp_eq, exp_cmp, char, pc::cmp_char, pc::eq_option_char, pc::cmp_option_char);
            nonzero_type!(s, i, j, exp_eq, exp_cmp, NonZeroU8, u8, nc::eq_nonzerou8, nc::cmp_nonzerou8, nc::eq_option_nonzerou8, nc::cmp_option_nonzerou8);
            nonzero_type!(s, i, j, exp_eq, exp_cmp, NonZeroI8, i8, nc::eq_nonzeroi8, nc::cmp_nonzeroi8, nc::eq_option_nonzeroi8, nc::cmp_option_nonzeroi8);
            nonzero_type!(s, i, j, exp_eq, exp_cmp, NonZeroU16, u16, nc::eq_nonzerou16, nc::cmp_nonzerou16, nc::eq_option_nonzerou16, nc::cmp_option_nonzerou16);
            nonzero_type!(s, i, j, exp_eq, exp_cmp, NonZeroI16, i16, nc::eq_nonzeroi16, nc::cmp_nonzeroi16, nc::eq_option_nonzeroi16, nc::cmp_option_nonzeroi16);
            nonzero_type!(s, i, j, exp_eq, exp_cmp, NonZeroU32, u32, nc::eq_nonzerou32, nc::cmp_nonzerou32, nc::eq_option_nonzerou32, nc::cmp_option_nonzerou32);
            nonzero_type!(s, i, j, exp_eq, exp_cmp, NonZeroI32, i32, nc::eq_nonzeroi32, nc::cmp_nonzeroi32, nc::eq_option_nonzeroi32, nc::cmp_option_nonzeroi32);
            nonzero_type!(s, i, j, exp_eq, exp_cmp, NonZeroU64, u64, nc::eq_nonzerou64, nc::cmp_nonzerou64, nc::eq_option_nonzerou64, nc::cmp_option_nonzerou64);
            nonzero_type!(s, i, j, exp_eq, exp_cmp, NonZeroI64, i64, nc::eq_nonzeroi64, nc::cmp_nonzeroi64, nc::eq_option_nonzeroi64, nc::cmp_option_nonzeroi64);
            nonzero_type!(s, i, j, exp_eq, exp_cmp, NonZeroU128, u128, nc::eq_nonzerou128, nc::cmp_nonzerou128, nc::eq_option_nonzerou128, nc::cmp_option_nonzerou128);
            nonzero_type!(s, i, j, exp_eq, exp_cmp, NonZeroI128, i128, nc::eq_nonzeroi128, nc::cmp_nonzeroi128, nc::eq_option_nonzeroi128, nc::cmp_option_nonzeroi128);
            nonzero_type!(s, i, j, exp_eq, exp_cmp, NonZeroUsize, usize, nc::eq_nonzerousize, nc::cmp_nonzerousize, nc::eq_option_nonzerousize, nc::cmp_option_nonzerousize);
            nonzero_type!(s, i, j, exp_eq, exp_cmp, NonZeroIsize, isize, nc::eq_nonzeroisize, nc::cmp_nonzeroisize, nc::eq_option_nonzeroisize, nc::cmp_option_nonzeroisize);
            // Ordering
            let os = [Ordering::Less, Ordering::Equal, Ordering::Greater];
            if i < 3 && j < 3 {
                s.check("eq_ordering", json!(konst::other::cmp::eq_ordering(os[i], os[j])), &exp_eq);
                s.check("cmp_ordering", json!(ord_s(konst::other::cmp::cmp_ordering(os[i], os[j]))), &exp_cmp);
                s.check("cmp_option_ordering", json!(ord_s(konst::other::cmp::cmp_option_ordering(Some(os[i]), Some(os[j])))), &exp_cmp);
                s.check("const_cmp!/Ordering", json!(ord_s(const_cmp!(os[i], os[j]))), &exp_cmp);
            }
            // scalar assertc
            let a = <u8 as Anchors>::anchors();
            let eqb = exp_eq.as_bool().unwrap();
            let (x, y) = (a[i], a[j]);
            s.check("assertc_eq!/u8 panics", json!(std::panic::catch_unwind(|| assertc_eq!(x, y)).is_err()), &json!(!eqb));
            s.check("assertc_ne!/u8 panics", json!(std::panic::catch_unwind(|| assertc_ne!(x, y)).is_err()), &json!(eqb));
        }
        ("scalar", true) => {
            let (l, r) = (&v["l"], &v["r"]);
            option_scalar_type!(s, l, r, exp_eq, exp_cmp, u8, pc::eq_option_u8, pc::cmp_option_u8);
            option_scalar_type!(s, l, r, exp_eq, exp_cmp, i8, pc::eq_option_i8, pc::cmp_option_i8);
            option_scalar_type!(s, l, r, exp_eq, exp_cmp, u16, pc::eq_option_u16, pc::cmp_option_u16);
            option_scalar_type!(s, l, r, exp_eq, exp_cmp, i16, pc::eq_option_i16, pc::cmp_option_i16);
            option_scalar_type!(s, l, r, exp_eq, exp_cmp, u32, pc::eq_option_u32, pc::cmp_option_u32);
            option_scalar_type!(s, l, r, exp_eq, exp_cmp, i32, pc::eq_option_i32, pc::cmp_option_i32);
            option_scalar_type!(s, l, r, exp_eq, exp_cmp, u64, pc::eq_option_u64, pc::cmp_option_u64);
            option_scalar_type!(s, l, r, exp_eq, exp_cmp, i64, pc::eq_option_i64, pc::cmp_option_i64);
            option_scalar_type!(s, l, r, exp_eq, exp_cmp, u128, pc::eq_option_u128, pc::cmp_option_u128);
            option_scalar_type!(s, l, r, exp_eq, exp_cmp, i128, pc::eq_option_i128, pc::cmp_option_i128);
            option_scalar_type!(s, l, r, exp_eq, exp_cmp, usize, pc::eq_option_usize, pc::cmp_option_usize);
            option_scalar_type!(s, l, r, exp_eq, exp_cmp, isize, pc::eq_option_isize, pc::cmp_option_isize);
            option_scalar_type!(s, l, r, exp_eq, exp_cmp, bool, pc::eq_option_bool, pc::cmp_option_bool);
            option_scalar_type!(s, l, r, exp_eq, exp_cmp, char, pc::eq_option_char, pc::cmp_option_char);
        }
        ("pair", false) => {
            // ranges: equality of (start, end) pairs
            use konst::range::cmp as rc;
            let (l, r) = (ints_of(&v["l"]), ints_of(&v["r"]));
            macro_rules! rng { ($t:ty, $f:path, $fi:path) => {{
                let d = <$t as Anchors>::digits();
                let (a, b) = (d[l[0] as usize]..d[l[1] as usize], d[r[0] as usize]..d[r[1] as usize]);
                s.check(&format!("eq_range/{}", stringify!($t)), json!($f(&a, &b)), &exp_eq);
                s.check(&format!("const_eq!/Range<{}>", stringify!($t)), json!(const_eq!(a.clone(), b.clone())), &exp_eq);
                let (ai, bi) = (d[l[0] as usize]..=d[l[1] as usize], d[r[0] as usize]..=d[r[1] as usize]);
                s.check(&format!("eq_rangeinc/{}", stringify!($t)), json!($fi(&ai, &bi)), &exp_eq);
                s.check(&format!("const_eq!/RangeInclusive<{}>", stringify!($t)), json!(const_eq!(ai.clone(), bi.clone())), &exp_eq);
                // the _for forms of the macro, every comparator form (none, key closure, two-argument closure, path)
                s.check(&format!("const_eq_for!(range)/{}", stringify!($t)), json!(const_eq_for!(range; a.clone(), b.clone())), &exp_eq);
                s.check(&format!("const_eq_for!(range,|x|)/{}", stringify!($t)), json!(const_eq_for!(range; a.clone(), b.clone(), |x| *x)), &exp_eq);
                s.check(&format!("const_eq_for!(range,|a,b|)/{}", stringify!($t)), json!(const_eq_for!(range; a.clone(), b.clone(), |x, y| const_eq!(*x, *y))), &exp_eq);
                s.check(&format!("const_eq_for!(range_inclusive)/{}", stringify!($t)), json!(const_eq_for!(range_inclusive; ai.clone(), bi.clone())), &exp_eq);
                s.check(&format!("const_eq_for!(range_inclusive,|x|)/{}", stringify!($t)), json!(const_eq_for!(range_inclusive; ai.clone(), bi.clone(), |x| **x)), &exp_eq);
                s.check(&format!("const_eq_for!(range_inclusive,|a,b|)/{}", stringify!($t)), json!(const_eq_for!(range_inclusive; ai.clone(), bi.clone(), |x, y| const_eq!(**x, **y))), &exp_eq);
                s.guard("std::eq/range", json!(a == b), &exp_eq);
            }} }
            rng!(u8, rc::eq_range_u8, rc::eq_rangeinc_u8);
            rng!(u16, rc::eq_range_u16, rc::eq_rangeinc_u16);
            rng!(u32, rc::eq_range_u32, rc::eq_rangeinc_u32);
            rng!(u64, rc::eq_range_u64, rc::eq_rangeinc_u64);
            rng!(u128, rc::eq_range_u128, rc::eq_rangeinc_u128);
            rng!(usize, rc::eq_range_usize, rc::eq_rangeinc_usize);
            rng!(char, rc::eq_range_char, rc::eq_rangeinc_char);
        }
        _ => panic!("unknown Cmp vector kind {kind}/{opt}"),
    }
}

/// random longer sequences through a rotating choice of functions; events {ev:"cmp"|"eq", kind, l, r, ret}
pub fn record(rng: &mut SmallRng, n_events: usize, out: &mut dyn Write) {
    use konst::slice::cmp as sc;
    for k in 0..n_events {
        let nested = rng.gen_bool(0.3);
        let gen_flat = |rng: &mut SmallRng, maxlen: usize| -> Vec<i64> {
            (0..rng.gen_range(0..=maxlen)).map(|_| rng.gen_range(0..3)).collect()
        };
        if nested {
            let l: Vec<Vec<i64>> = (0..rng.gen_range(0..5)).map(|_| gen_flat(rng, 4)).collect();
            let r: Vec<Vec<i64>> = if rng.gen_bool(0.3) { l.clone() } else {
                let mut r = l.clone();
                if !r.is_empty() && rng.gen_bool(0.6) { let i = rng.gen_range(0..r.len()); r[i] = gen_flat(rng, 4); }
                if rng.gen_bool(0.4) { r.push(gen_flat(rng, 3)); } else if rng.gen_bool(0.3) { r.pop(); }
                r
            };
            let ls: Vec<String> = l.iter().map(|d| digits_str(d)).collect();
            let rs: Vec<String> = r.iter().map(|d| digits_str(d)).collect();
            let (a, b): (Vec<&str>, Vec<&str>) = (ls.iter().map(|x| x.as_str()).collect(), rs.iter().map(|x| x.as_str()).collect());
            let ret = if k % 2 == 0 { json!(ord_s(sc::cmp_slice_str(&a, &b))) } else { json!(sc::eq_slice_str(&a, &b)) };
            writeln!(out, "{}", json!({"ev": if k % 2 == 0 {"cmp"} else {"eq"}, "kind": "nested", "l": l, "r": r, "ret": ret})).unwrap();
        } else {
            // lengths around 8 / 16 / 32 / 64 elements one time in four (equal up to a late index)
            // ... and, rarely, beyond 256 elements (an index or length kept in a u8 wraps there)
            let ml = if rng.gen_range(0..40) == 0 { [255, 256, 257, 258, 300][rng.gen_range(0..5)] }
                     else { [12, 12, 12, 12, 12, 12, 9, 17, 33, 40, 65, 80][rng.gen_range(0..12)] };
            let l = if ml > 12 { let mut v = gen_flat(rng, ml); while v.len() + 2 < ml { v.push(rng.gen_range(0..3)); } v } else { gen_flat(rng, ml) };
            let mut r = l.clone();
            match rng.gen_range(0..5) {
                0 => {}
                1 => { if !r.is_empty() { let i = rng.gen_range(0..r.len()); r[i] = rng.gen_range(0..3); } }
                2 => { r.push(rng.gen_range(0..3)); }
                3 => { r.pop(); if !r.is_empty() { let i = rng.gen_range(0..r.len()); r[i] = rng.gen_range(0..3); } }
                _ => { r = gen_flat(rng, ml); }
            }
            let ret = match k % 6 {
                0 => json!(ord_s(sc::cmp_slice_i64(&map_digits::<i64>(&l).unwrap(), &map_digits::<i64>(&r).unwrap()))),
                1 => json!(sc::eq_slice_char(&map_digits::<char>(&l).unwrap(), &map_digits::<char>(&r).unwrap())),
                2 => json!(ord_s(konst::cmp_str(&digits_str(&l), &digits_str(&r)))),
                3 => json!(konst::eq_str(&digits_str(&l), &digits_str(&r))),
                4 => json!(ord_s(konst::slice::cmp_bytes(&map_digits::<u8>(&l).unwrap(), &map_digits::<u8>(&r).unwrap()))),
                _ => { let (a, b) = (map_digits::<u16>(&l).unwrap(), map_digits::<u16>(&r).unwrap());
                       let (a, b): (&[u16], &[u16]) = (&a, &b); json!(ord_s(const_cmp!(a, b))) }
            };
            let ev = if matches!(k % 6, 1 | 3) { "eq" } else { "cmp" };
            writeln!(out, "{}", json!({"ev": ev, "kind": "flat", "l": l, "r": r, "ret": ret})).unwrap();
        }
    }
}
