-------------------------------- MODULE Utf8 --------------------------------
(***************************************************************************)
(* UTF-8 on byte sequences, defined arithmetically so that the same        *)
(* operators serve the reference semantics, the implementation-shaped      *)
(* decoder of Chars.tla and the complete 0..0x10FFFF sweep of C07.         *)
(***************************************************************************)
EXTENDS Common

IsScalar(n) == (0 <= n /\ n <= 55295) \/ (57344 <= n /\ n <= 1114111)

\* std: char::encode_utf8
Encode(c) ==
    IF c < 128 THEN <<c>>
    ELSE IF c < 2048 THEN <<192 + (c \div 64), 128 + (c % 64)>>
    ELSE IF c < 65536 THEN <<224 + (c \div 4096), 128 + ((c \div 64) % 64), 128 + (c % 64)>>
    ELSE <<240 + (c \div 262144), 128 + ((c \div 4096) % 64), 128 + ((c \div 64) % 64), 128 + (c % 64)>>

IsCont(b)  == 128 <= b /\ b < 192
\* std: u8 is the first byte of a char, or any ASCII byte  ((b as i8) >= -0x40)
IsLead(b)  == b < 128 \/ b >= 192

\* width announced by a leading byte (0 = not a leading byte of well-formed UTF-8)
WidthOf(b) == IF b < 128 THEN 1
              ELSE IF 194 <= b /\ b < 224 THEN 2
              ELSE IF 224 <= b /\ b < 240 THEN 3
              ELSE IF 240 <= b /\ b < 245 THEN 4
              ELSE 0

\* scalar value of the well-formed sequence bs (1..4 bytes), by the definition of UTF-8
DecodeSeq(bs) ==
    CASE Len(bs) = 1 -> bs[1]
      [] Len(bs) = 2 -> (bs[1] - 192) * 64 + (bs[2] - 128)
      [] Len(bs) = 3 -> (bs[1] - 224) * 4096 + (bs[2] - 128) * 64 + (bs[3] - 128)
      [] Len(bs) = 4 -> (bs[1] - 240) * 262144 + (bs[2] - 128) * 4096 + (bs[3] - 128) * 64 + (bs[4] - 128)

\* well-formed single character: right width, continuation bytes, scalar, shortest form
WellFormedChar(bs) ==
    /\ Len(bs) \in 1..4
    /\ WidthOf(bs[1]) = Len(bs)
    /\ \A i \in 2..Len(bs) : IsCont(bs[i])
    /\ IsScalar(DecodeSeq(bs))
    /\ Encode(DecodeSeq(bs)) = bs

RECURSIVE ValidUtf8(_)
ValidUtf8(s) ==
    IF s = <<>> THEN TRUE
    ELSE LET w == WidthOf(s[1]) IN
         /\ w # 0 /\ w <= Len(s)
         /\ WellFormedChar(SubSeq(s, 1, w))
         /\ ValidUtf8(SubSeq(s, w + 1, Len(s)))

\* std: core::str::from_utf8 with its error.  Result: [ok |-> TRUE] or [ok |-> FALSE, upto |-> valid_up_to,
\* elen |-> error_len, 0 standing for None (the input ends inside a sequence that was valid so far)].
\* Second-byte ranges per lead byte (shortest form, no surrogates, <= U+10FFFF): E0 A0..BF, E1..EC 80..BF, ED 80..9F,
\* EE..EF 80..BF, F0 90..BF, F1..F3 80..BF, F4 80..8F.
SecondOK(ld, b) ==
    CASE ld = 224 -> 160 <= b /\ b <= 191
      [] ld = 237 -> 128 <= b /\ b <= 159
      [] ld = 240 -> 144 <= b /\ b <= 191
      [] ld = 244 -> 128 <= b /\ b <= 143
      [] OTHER -> IsCont(b)
Utf8Bad(upto, elen) == [ok |-> FALSE, upto |-> upto, elen |-> elen]
RECURSIVE Utf8From(_, _)
Utf8From(s, k) ==      \* k: 0-based offset of the next unchecked byte
    IF k = Len(s) THEN [ok |-> TRUE]
    ELSE LET ld == s[k + 1] w == WidthOf(ld) have == Len(s) - k IN
         IF w = 0 THEN Utf8Bad(k, 1)
         ELSE IF w = 1 THEN Utf8From(s, k + 1)
         ELSE IF have < 2 THEN Utf8Bad(k, 0)
         ELSE IF ~SecondOK(ld, s[k + 2]) THEN Utf8Bad(k, 1)
         ELSE IF w = 2 THEN Utf8From(s, k + 2)
         ELSE IF have < 3 THEN Utf8Bad(k, 0)
         ELSE IF ~IsCont(s[k + 3]) THEN Utf8Bad(k, 2)
         ELSE IF w = 3 THEN Utf8From(s, k + 3)
         ELSE IF have < 4 THEN Utf8Bad(k, 0)
         ELSE IF ~IsCont(s[k + 4]) THEN Utf8Bad(k, 3)
         ELSE Utf8From(s, k + 4)
Utf8Check(s) == Utf8From(s, 0)

\* std: str::is_char_boundary (index 0-based, i = len is a boundary, i > len is not)
IsCharBoundary(s, i) == i = 0 \/ i = Len(s) \/ (i < Len(s) /\ IsLead(s[i + 1]))

\* 0-based offsets at which a character of the valid string s starts
CharStarts(s) == {i \in 0..(Len(s) - 1) : IsLead(s[i + 1])}

\* the sub-string [off, off+n) of the valid string s is itself a str: both ends on boundaries
Utf8Cut(s, off, n) == off + n <= Len(s) /\ IsCharBoundary(s, off) /\ IsCharBoundary(s, off + n)

\* strings of up to k characters of the character alphabet Chars (a set of byte sequences)
StrsUpTo(Chars, k) == {Concat(cs) : cs \in SeqsUpTo(Chars, k)}

\* sequence of scalar values of a valid string
RECURSIVE CharsOf(_)
CharsOf(s) == IF s = <<>> THEN <<>>
              ELSE LET w == WidthOf(s[1]) IN
                   <<DecodeSeq(SubSeq(s, 1, w))>> \o CharsOf(SubSeq(s, w + 1, Len(s)))

\* the standard 4-width alphabet: a, n-tilde, square root, crab
CA     == <<97>>
CNT    == <<195, 177>>
CSQRT  == <<226, 136, 154>>
CCRAB  == <<240, 159, 166, 128>>
\* "byte anagrams": characters made of the bytes of CSQRT / CCRAB in another order, so that a byte of one
\* character occurs at a different position of its neighbour (U+2688, U+1F026)
CSQRT2 == <<226, 154, 136>>
CCRAB2 == <<240, 159, 128, 166>>
\* characters at the ends of each encoded width and around the surrogate gap:
\* U+0 (an in-band sentinel in careless code) U+7F U+80 U+7FF U+800 U+D7FF U+E000 U+FFFF U+10000 U+10FFFF
EdgeChars == {Encode(c) : c \in {0, 127, 128, 2047, 2048, 55295, 57344, 65535, 65536, 1114111}}
\* one character for every possible lead byte C2..DF, E0..EF, F0..F4 (the first scalar value with that lead byte), and
\* one whose continuation bytes are all BF for the widths 3 and 4: a table of lead bytes with a missing row shows here
LeadScalars == {128 + 64 * q : q \in 0..29} \cup {2048} \cup {4096 * q : q \in 1..15} \cup {65536} \cup {262144 * q : q \in 1..4}
LeadChars == {Encode(c) : c \in LeadScalars}
=============================================================================
