--------------------------------- MODULE CStr ---------------------------------
(***************************************************************************)
(* C20 (CStr part): konst::ffi::cstr::{from_bytes_until_nul,               *)
(* from_bytes_with_nul, to_bytes, to_bytes_with_nul, to_str}.              *)
(*  M : the first-nul scan (one action per byte), the with_nul test        *)
(*      `length_with_nul == len`, and the pointer walk of                  *)
(*      to_bytes_with_nul over the CStr's own bytes.                       *)
(*  R : std: until_nul succeeds iff a nul exists (CStr = bytes up to and   *)
(*      including the first nul); with_nul succeeds iff the first nul is   *)
(*      the last byte; to_bytes drops the nul; to_str = from_utf8.         *)
(***************************************************************************)
EXTENDS Common, Utf8, TLC

CONSTANTS Inputs

VARIABLES op, bytes, i, pc, res, walk
vars == <<op, bytes, i, pc, res, walk>>

Nuls(b) == {k \in 1..Len(b) : b[k] = 0}
FirstNul(b) == SetMin(Nuls(b))                       \* 1-based

\* R: the bytes (with nul) of the resulting CStr, or None
RefUntil(b) == IF Nuls(b) = {} THEN None ELSE Some(SubSeq(b, 1, FirstNul(b)))
RefWith(b)  == IF Nuls(b) # {} /\ FirstNul(b) = Len(b) THEN Some(b) ELSE None
Ref(o, b)   == IF o = "until_nul" THEN RefUntil(b) ELSE RefWith(b)

Init == /\ op \in {"until_nul", "with_nul"} /\ bytes \in Inputs
        /\ i = 0 /\ pc = "scan" /\ res = None /\ walk = 0

\* from_bytes_until_nul_inner: for i in 0..len { if bytes[i] == 0 { return Ok(..i+1) } }
Scan == /\ pc = "scan" /\ UNCHANGED <<op, bytes, walk>>
        /\ IF i = Len(bytes) THEN pc' = "notfound" /\ UNCHANGED <<i, res>>
           ELSE IF bytes[i + 1] = 0 THEN pc' = "found" /\ UNCHANGED <<i, res>>
           ELSE i' = i + 1 /\ UNCHANGED <<pc, res>>

Decide == /\ pc \in {"found", "notfound"} /\ UNCHANGED <<op, bytes, i, walk>>
          /\ IF pc = "notfound" THEN res' = None /\ pc' = "done"
             ELSE IF op = "until_nul" \/ i + 1 = Len(bytes)
             THEN res' = Some(SubSeq(bytes, 1, i + 1)) /\ pc' = "walk"      \* from_bytes_with_nul_unchecked(sub)
             ELSE res' = None /\ pc' = "done"

\* to_bytes_with_nul: while *start.add(k) != 0 { k += 1 } on the CStr just created
Walk == /\ pc = "walk" /\ UNCHANGED <<op, bytes, i, res>>
        /\ IF res.some[walk + 1] # 0 THEN walk' = walk + 1 /\ UNCHANGED pc
           ELSE pc' = "done" /\ UNCHANGED walk

Next == Scan \/ Decide \/ Walk
Spec == Init /\ [][Next]_vars

Refines == pc = "done" => res = Ref(op, bytes)
\* precondition of from_bytes_with_nul_unchecked: exactly one nul, at the end
UncheckedPre == pc = "walk" => /\ res.some[Len(res.some)] = 0
                               /\ \A k \in 1..(Len(res.some) - 1) : res.some[k] # 0
\* the pointer walk never leaves the CStr
WalkInBounds == pc = "walk" => walk + 1 <= Len(res.some)
WalkResult == pc = "done" /\ IsSome(res) => walk + 1 = Len(res.some)
=============================================================================
