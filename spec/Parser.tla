------------------------------- MODULE Parser -------------------------------
(***************************************************************************)
(* konst::parsing::Parser (C13, C14).                                      *)
(*                                                                         *)
(* State = the struct's fields, kept exactly as the struct keeps them:     *)
(*   rem  : the remainder, represented by its window [lo, hi) of `orig`    *)
(*          (lo/hi are ghost: the struct only stores the &str)             *)
(*   so   : start_offset, a separate counter updated by the methods        *)
(*   dir  : parse_direction of the last operation  (S | E | B)             *)
(*   yls  : yielded_last_split                                             *)
(* `orig` and `base` (with_start_offset) are fixed per behaviour.          *)
(*                                                                         *)
(* One action per public method x argument.  Each method is written in the *)
(* code's shape: direction set first; body computes the new remainder with *)
(* the string function (reference semantics of MatcherRef / StripTrimRef / *)
(* ParseIntRef, which C04/C05/C12 bind to the code); then, for operations  *)
(* working from the start or both ends, `so += old_len - new_len`          *)
(* (the both-ends forms are trim_end().trim_start() resp.                  *)
(* trim_start_matches().trim_end_matches(), so only the bytes removed at   *)
(* the start are added); errors are built from the parser *before* the     *)
(* body ran.                                                               *)
(***************************************************************************)
EXTENDS Common, Utf8, MatcherRef, StripTrimRef, ParseIntRef, ParserMethod

CONSTANTS Origs,    \* original strings (valid UTF-8)
          Bases,    \* start offsets given to with_start_offset (0 = Parser::new)
          Pats,     \* pattern arguments (non-empty byte strings)
          Delims,   \* delimiter arguments (non-empty)
          SkipNs    \* byte counts for skip / skip_back

VARIABLES orig, base, lo, hi, so, dir, yls, hist
vars == <<orig, base, lo, hi, so, dir, yls, hist>>
View == <<orig, base, lo, hi, so, dir, yls>>

NoArgOps == {"trim", "trim_start", "trim_end", "parse_u8", "parse_i8", "parse_bool"}
\* parser_method! forms applied to the parser (growth: macro x Parser composition); the argument n selects one of
\* the fixed alternative lists PmAlts (literals must be compile-time tokens in the generated / harness code)
PmOps    == {"pm_strip_prefix", "pm_strip_suffix", "pm_find_skip", "pm_rfind_skip", "pm_trim_start_matches", "pm_trim_end_matches"}
PmAlts   == << << <<97>>, <<97, 44>> >>,                   \* "a" => 1, "a," => 2   (first listed wins)
              << <<195, 177>>, <<44>> >>,                   \* "n-tilde" => 1, "," => 2
              << <<97, 44>>, <<32>> >> >>                   \* "a," => 1, " " => 2
PmAltBytes(k) == [b \in 1..Len(PmAlts[k]) |-> <<PmAlts[k][b]>>]
PmForm(o) == SubSeq(o, 4, Len(o))
PatOps   == {"trim_matches", "trim_start_matches", "trim_end_matches", "strip_prefix", "strip_suffix",
             "find_skip", "rfind_skip"}
SplitOps == {"split", "rsplit", "split_keep", "split_terminator", "rsplit_terminator"}
SkipOps  == {"skip", "skip_back"}

MkOp(o, p, n) == [op |-> o, p |-> p, n |-> n]
\* Parser::into_error(kind) / into_other_error(&"custom"): always an error, built from the parser as it is
\* (specification growth: no listed property speaks about them; the harness compares them as "extra")
IntoErrOps   == {"into_error", "into_other_error"}
IntoErrKinds == <<"Find", "Strip", "ParseBool", "Other">>
OtherMessage == "custom"
OpSet == {MkOp(o, <<>>, 0) : o \in NoArgOps}
           \cup {MkOp(o, p, 0) : o \in PatOps, p \in Pats}
           \cup {MkOp(o, d, 0) : o \in SplitOps, d \in Delims}
           \cup {MkOp(o, <<>>, n) : o \in SkipOps, n \in SkipNs}
           \cup {MkOp(o, <<>>, k) : o \in PmOps, k \in 1..Len(PmAlts)}
           \cup {MkOp("into_error", <<>>, k) : k \in 1..Len(IntoErrKinds)}
           \cup {MkOp("into_other_error", <<>>, 0)}

DirOf(o) == IF o \in {"trim", "trim_matches"} THEN "B"
            ELSE IF o \in {"trim_end", "trim_end_matches", "strip_suffix", "rfind_skip", "rsplit",
                           "rsplit_terminator", "skip_back", "pm_strip_suffix", "pm_rfind_skip", "pm_trim_end_matches"} THEN "E"
            ELSE "S"

-----------------------------------------------------------------------------
(* effect of one method on a remainder `rem` with flag `y`:
   ok  : bytes cut at the start / end, new flag, returned value
   err : error kind *)
OkCut(cs, ce, y, r) == [ok |-> TRUE, cs |-> cs, ce |-> ce, yls |-> y, ret |-> r, kind |-> ""]
Fail(kind)          == [ok |-> FALSE, cs |-> 0, ce |-> 0, yls |-> FALSE, ret |-> 0, kind |-> kind]
NoRet == 0

\* smallest char boundary >= n (n <= Len(s)); largest char boundary <= n
BoundaryUp(s, n)   == SetMin({i \in n..Len(s) : IsCharBoundary(s, i)})
BoundaryDown(s, n) == SetMax({i \in 0..n : IsCharBoundary(s, i)})

U8Max  == <<2, 5, 5>>
I8Max  == <<1, 2, 7>>
I8Min  == <<1, 2, 8>>
IntVal(r) == IF r.neg THEN 0 - ValOf(r.mag) ELSE ValOf(r.mag)

Effect(o, rem, y) ==
    LET len == Len(rem) IN
    CASE o.op = "into_error" -> Fail(IntoErrKinds[o.n])
      [] o.op = "into_other_error" -> Fail("Other")
      [] o.op = "trim_start" -> OkCut(WsStart(rem), 0, y, NoRet)
      [] o.op = "trim_end"   -> OkCut(0, WsEnd(rem), y, NoRet)
      [] o.op = "trim"       -> OkCut(WsStart(TrimEndWs(rem)), WsEnd(rem), y, NoRet)
      [] o.op = "trim_start_matches" -> OkCut(len - Len(TrimStartM(rem, o.p)), 0, y, NoRet)
      [] o.op = "trim_end_matches"   -> OkCut(0, len - Len(TrimEndM(rem, o.p)), y, NoRet)
      [] o.op = "trim_matches" ->
            LET a == TrimStartM(rem, o.p) IN OkCut(len - Len(a), Len(a) - Len(TrimEndM(a, o.p)), y, NoRet)
      [] o.op = "strip_prefix" -> IF IsPrefixOf(o.p, rem) THEN OkCut(Len(o.p), 0, y, NoRet) ELSE Fail("Strip")
      [] o.op = "strip_suffix" -> IF IsSuffixOf(o.p, rem) THEN OkCut(0, Len(o.p), y, NoRet) ELSE Fail("Strip")
      [] o.op = "find_skip" ->
            LET f == Find(rem, o.p) IN IF IsSome(f) THEN OkCut(f.some + Len(o.p), 0, y, NoRet) ELSE Fail("Find")
      [] o.op = "rfind_skip" ->
            LET f == RFind(rem, o.p) IN IF IsSome(f) THEN OkCut(0, len - f.some, y, NoRet) ELSE Fail("Find")
      [] o.op = "split" ->
            IF y THEN Fail("SplitExhausted")
            ELSE LET f == Find(rem, o.p) IN
                 IF IsSome(f) THEN OkCut(f.some + Len(o.p), 0, y, UpTo(rem, f.some))
                 ELSE OkCut(len, 0, TRUE, rem)
      [] o.op = "split_keep" ->
            IF y THEN Fail("SplitExhausted")
            ELSE LET f == Find(rem, o.p) IN
                 IF IsSome(f) THEN OkCut(f.some, 0, y, UpTo(rem, f.some))
                 ELSE OkCut(len, 0, TRUE, rem)
      [] o.op = "rsplit" ->
            IF y THEN Fail("SplitExhausted")
            ELSE LET f == RFind(rem, o.p) IN
                 IF IsSome(f) THEN OkCut(0, len - f.some, y, From(rem, f.some + Len(o.p)))
                 ELSE OkCut(0, len, TRUE, rem)
      [] o.op = "split_terminator" ->
            IF len = 0 \/ y THEN Fail(IF y THEN "SplitExhausted" ELSE "DelimiterNotFound")
            ELSE LET f == Find(rem, o.p) IN
                 IF IsSome(f) THEN OkCut(f.some + Len(o.p), 0, f.some + Len(o.p) = len, UpTo(rem, f.some))
                 ELSE Fail("DelimiterNotFound")
      [] o.op = "rsplit_terminator" ->
            IF len = 0 \/ y THEN Fail(IF y THEN "SplitExhausted" ELSE "DelimiterNotFound")
            ELSE LET f == RFind(rem, o.p) IN
                 IF IsSome(f) THEN OkCut(0, len - f.some, f.some = 0, From(rem, f.some + Len(o.p)))
                 ELSE Fail("DelimiterNotFound")
      [] o.op = "skip"      -> OkCut(IF o.n > len THEN len ELSE BoundaryUp(rem, o.n), 0, y, NoRet)
      [] o.op = "skip_back" -> OkCut(0, len - BoundaryDown(rem, SatSub(len, o.n)), y, NoRet)
      [] o.op = "parse_u8" ->
            LET r == PrefixParse(rem, FALSE, U8Max, <<>>) IN
            IF IsSome(r) THEN OkCut(r.some.consumed, 0, y, IntVal(r.some)) ELSE Fail("ParseInteger")
      [] o.op = "parse_i8" ->
            LET r == PrefixParse(rem, TRUE, I8Max, I8Min) IN
            IF IsSome(r) THEN OkCut(r.some.consumed, 0, y, IntVal(r.some)) ELSE Fail("ParseInteger")
      \* parser_method!: the macro computes the new remainder with its own match loops (ParserMethod.tla) and then
      \* moves the parser with skip / skip_back; the default branch leaves the parser untouched (see PmUnchanged)
      [] o.op \in PmOps ->
            LET form == CASE o.op = "pm_strip_prefix" -> "strip_prefix" [] o.op = "pm_strip_suffix" -> "strip_suffix"
                          [] o.op = "pm_find_skip" -> "find_skip" [] o.op = "pm_rfind_skip" -> "rfind_skip"
                          [] o.op = "pm_trim_start_matches" -> "trim_start_matches" [] OTHER -> "trim_end_matches"
                r == FormR(form, PmAltBytes(o.n), rem)
            IN OkCut(r.lo, len - r.hi, y, r.b)
      [] o.op = "parse_bool" ->
            IF IsPrefixOf(<<116, 114, 117, 101>>, rem) THEN OkCut(4, 0, y, TRUE)
            ELSE IF IsPrefixOf(<<102, 97, 108, 115, 101>>, rem) THEN OkCut(5, 0, y, FALSE)
            ELSE Fail("ParseBool")

\* does the method hand back a value besides the parser?
Returns(o) == o \in SplitOps \cup {"parse_u8", "parse_i8", "parse_bool"} \cup PmOps
\* branching forms whose default branch ran do not call skip / skip_back: direction and offsets stay as they were
PmUnchanged(o, e) == o.op \in {"pm_strip_prefix", "pm_strip_suffix", "pm_find_skip", "pm_rfind_skip"} /\ e.ret = 0

\* the struct after the method, as the code computes it
Rem == Slice(orig, lo, hi)
NewSo(o, e) == IF DirOf(o.op) = "E" THEN so
               ELSE IF DirOf(o.op) = "B" THEN so + e.cs        \* trim_end().trim_start(): only the start counts
               ELSE so + ((hi - lo) - ((hi - e.ce) - (lo + e.cs)))   \* so += old_len - new_len
\* the error, built from the parser the method was called on
ErrDir(o)   == IF o.op \in IntoErrOps THEN dir ELSE DirOf(o.op)
ErrOf(o, e) == [kind |-> e.kind, off |-> IF ErrDir(o) = "E" THEN so + (hi - lo) ELSE so, dir |-> ErrDir(o)]

\* ParseError's Display / panic text: prefix for the direction, the offset, " byte offset", suffix for the kind
\* (specification growth, compared as "extra")
DirText(d)  == CASE d = "S" -> "error from the start at the "
                 [] d = "E" -> "error from the end at the "
                 [] d = "B" -> "error from the start and end at the "
KindText(k, extra) ==
    CASE k = "ParseInteger" -> " while parsing an integer"
      [] k = "ParseBool" -> " while parsing a bool"
      [] k = "Find" -> " while trying to find and skip a pattern"
      [] k = "Strip" -> " while trying to strip a pattern"
      [] k = "SplitExhausted" -> ": called split on empty parser"
      [] k = "DelimiterNotFound" -> ": delimiter (for splitting) could not be found"
      [] k = "Other" -> IF extra = "" THEN " other error" ELSE ": " \o extra
ErrMsg(o, e) == [pre |-> DirText(ErrDir(o)), off |-> ErrOf(o, e).off, mid |-> " byte offset",
                 suf |-> KindText(e.kind, IF o.op = "into_other_error" THEN OtherMessage ELSE "")]

Do(o) ==
    LET e == Effect(o, Rem, yls) IN
    /\ e.ok
    /\ lo' = lo + e.cs /\ hi' = hi - e.ce
    /\ so' = NewSo(o, e)
    /\ dir' = (IF PmUnchanged(o, e) THEN dir ELSE DirOf(o.op)) /\ yls' = e.yls
    /\ hist' = Append(hist, o)
    /\ UNCHANGED <<orig, base>>

Init == /\ orig \in Origs /\ base \in Bases
        /\ lo = 0 /\ hi = Len(orig) /\ so = base /\ dir = "S" /\ yls = FALSE /\ hist = <<>>

Next == \E o \in OpSet : Do(o)
Spec == Init /\ [][Next]_vars

-----------------------------------------------------------------------------
(* C13 *)
OffsetInv == so = base + lo
WindowInv == /\ 0 <= lo /\ lo <= hi /\ hi <= Len(orig)
             /\ IsCharBoundary(orig, lo) /\ IsCharBoundary(orig, hi)
\* a failing operation reports the start (end) offset of the parser it was called on
ErrorInv == \A o \in OpSet :
                LET e == Effect(o, Rem, yls) IN
                ~e.ok => /\ ErrOf(o, e).off = (IF ErrDir(o) = "E" THEN base + hi ELSE base + lo)
                         /\ ErrOf(o, e).dir = ErrDir(o)

(* C14: split protocols, stated on the transition function *)
RECURSIVE Pieces(_, _)
Pieces(s, d) == LET f == Find(s, d) IN
                IF IsNone(f) THEN <<s>> ELSE <<UpTo(s, f.some)>> \o Pieces(From(s, f.some + Len(d)), d)
RECURSIVE RPieces(_, _)
RPieces(s, d) == LET f == RFind(s, d) IN
                 IF IsNone(f) THEN <<s>> ELSE <<From(s, f.some + Len(d))>> \o RPieces(UpTo(s, f.some), d)

After(e) == Slice(Rem, e.cs, Len(Rem) - e.ce)

SplitProtocol ==
    \A d \in Delims :
        /\ LET e == Effect(MkOp("split", d, 0), Rem, yls) ps == Pieces(Rem, d) IN
           IF yls THEN ~e.ok /\ e.kind = "SplitExhausted"
           ELSE /\ e.ok /\ e.ret = Head(ps)
                /\ IF Len(ps) = 1 THEN e.yls /\ After(e) = <<>>
                   ELSE ~e.yls /\ Pieces(After(e), d) = Tail(ps)
        /\ LET e == Effect(MkOp("rsplit", d, 0), Rem, yls) ps == RPieces(Rem, d) IN
           IF yls THEN ~e.ok /\ e.kind = "SplitExhausted"
           ELSE /\ e.ok /\ e.ret = Head(ps)
                /\ IF Len(ps) = 1 THEN e.yls /\ After(e) = <<>>
                   ELSE ~e.yls /\ RPieces(After(e), d) = Tail(ps)
        \* terminator forms: a piece is yielded only if a delimiter follows (precedes) it
        /\ LET e == Effect(MkOp("split_terminator", d, 0), Rem, yls) ps == Pieces(Rem, d) IN
           IF yls \/ Len(ps) = 1 THEN ~e.ok
           ELSE e.ok /\ e.ret = Head(ps) /\ (After(e) = <<>> <=> e.yls)
        /\ LET e == Effect(MkOp("rsplit_terminator", d, 0), Rem, yls) ps == RPieces(Rem, d) IN
           IF yls \/ Len(ps) = 1 THEN ~e.ok
           ELSE e.ok /\ e.ret = Head(ps) /\ (After(e) = <<>> <=> e.yls)

\* every remainder handed out keeps being a str (C01)
Utf8Inv == Utf8Cut(orig, lo, hi - lo)
=============================================================================
