------------------------------ MODULE SliceIter ------------------------------
(***************************************************************************)
(* C08: konst's slice iterators iter / iter_copied / windows / chunks /     *)
(* rchunks / chunks_exact / rchunks_exact / array_chunks and their Rev      *)
(* twins, stepped from both ends.                                           *)
(*                                                                          *)
(* State = the struct's fields: the remaining slice as the window [lo,hi)   *)
(* of the original (for chunks/rchunks an Option: live = FALSE is None),    *)
(* the size n, the pre-split remainder window (exact / array kinds), and    *)
(* fwd (FALSE = the *Rev type, whose next is next_back).                    *)
(*                                                                          *)
(*  M : the code's index arithmetic, one action per public step.            *)
(*  R : std: the items are the first / last element of std's partition of   *)
(*      the *remaining* slice (Partition), iteration ends when it is empty. *)
(***************************************************************************)
EXTENDS Common, TLC

CONSTANTS MaxLen,
          ArrayNs       \* the const parameters N for which array_chunks::<_, N> is instantiated in the harness

\* sizes standing for isize::MAX, isize::MAX + 1, usize::MAX - 1, usize::MAX (the harness maps a model
\* value v >= 100 to the real value with the same distance from its anchor, DESIGN §3-2).  Every size
\* larger than the slice behaves alike in R, so the choice of the four values only matters to the code.
BigNs == {127, 128, 254, 255}
\* slices of a zero-sized element type may be longer than isize::MAX: lengths 128 and 255 stand for
\* isize::MAX + 1 and usize::MAX elements (every len >= 100 denotes such a slice; only a few steps are taken)
ZstLens   == {128, 255}
ZstNs     == {1, 2, 3, 4, 127, 128, 129, 254, 255}
ZstDepth  == 3

Kinds == {"iter", "copied", "windows", "chunks", "rchunks", "chunks_exact", "rchunks_exact", "array_chunks"}
ExactKinds == {"chunks_exact", "rchunks_exact", "array_chunks"}

VARIABLES kind, len, n, lo, hi, live, rlo, rhi, fwd, hist
vars == <<kind, len, n, lo, hi, live, rlo, rhi, fwd, hist>>
View == <<kind, len, n, lo, hi, live, rlo, rhi, fwd>>

-----------------------------------------------------------------------------
(* R: std's partition of the remaining slice [a, b) *)
CeilDiv(x, y) == (x + y - 1) \div y
Partition(k, a, b, sz) ==
    LET l == b - a IN
    CASE k \in {"iter", "copied"} -> [j \in 1..l |-> <<a + j - 1, a + j>>]
      [] k = "windows" -> IF l < sz THEN <<>> ELSE [j \in 1..(l - sz + 1) |-> <<a + j - 1, a + j - 1 + sz>>]
      [] k = "chunks"  -> [j \in 1..CeilDiv(l, sz) |-> <<a + (j - 1) * sz, MinOf(a + j * sz, b)>>]
      \* rchunks: aligned from the back; the first *yielded* is the last in memory
      [] k = "rchunks" -> [j \in 1..CeilDiv(l, sz) |-> <<MaxOf(b - j * sz, a), b - (j - 1) * sz>>]
      [] k \in {"chunks_exact", "array_chunks"} -> [j \in 1..(l \div sz) |-> <<a + (j - 1) * sz, a + j * sz>>]
      [] k = "rchunks_exact" -> [j \in 1..(l \div sz) |-> <<b - j * sz, b - (j - 1) * sz>>]

\* std: window of the slice that the exact iterators never yield
StdRemainder(k, l, sz) ==
    CASE k \in {"chunks_exact", "array_chunks"} -> <<l - (l % sz), l>>
      [] k = "rchunks_exact" -> <<0, l % sz>>
      [] OTHER -> <<0, 0>>

-----------------------------------------------------------------------------
(* M *)
Init ==
    /\ kind \in Kinds
    /\ \/ len \in 0..MaxLen /\ n \in 1..(MaxLen + 1) \cup BigNs
       \/ len \in ZstLens /\ n \in ZstNs
    /\ (kind \in {"iter", "copied"} => n = 1)
    /\ (kind = "array_chunks" => n <= MaxLen + 1 /\ n \in ArrayNs)
    /\ fwd = TRUE /\ hist = <<>>
    /\ CASE kind = "chunks_exact" \/ kind = "array_chunks" ->
              \* let at = len - len % n; (slice, rem) = split_at(slice, at)   |  as_chunks
              /\ lo = 0 /\ hi = len - (len % n) /\ rlo = len - (len % n) /\ rhi = len /\ live = TRUE
         [] kind = "rchunks_exact" ->
              /\ lo = len % n /\ hi = len /\ rlo = 0 /\ rhi = len % n /\ live = TRUE
         [] kind \in {"chunks", "rchunks"} ->
              /\ lo = 0 /\ hi = len /\ rlo = 0 /\ rhi = 0 /\ live = (len # 0)      \* some_if_nonempty
         [] OTHER -> lo = 0 /\ hi = len /\ rlo = 0 /\ rhi = 0 /\ live = TRUE

\* result of a step: [item |-> window or None, lo, hi, live]
Step(item, nlo, nhi, nlive) == [item |-> item, lo |-> nlo, hi |-> nhi, live |-> nlive]
NoStep == Step(None, lo, hi, live)
L == hi - lo

\* the code of `next` of the forward type
FrontStep ==
    CASE kind \in {"iter", "copied"} -> IF lo < hi THEN Step(Some(<<lo, lo + 1>>), lo + 1, hi, TRUE) ELSE NoStep
      [] kind = "windows" -> IF L < n THEN NoStep ELSE Step(Some(<<lo, lo + n>>), lo + 1, hi, TRUE)
      [] kind = "chunks" ->
            IF ~live THEN NoStep
            ELSE LET cut == IF n > L THEN hi ELSE lo + n IN          \* split_at clamps
                 Step(Some(<<lo, cut>>), cut, hi, cut # hi)
      [] kind = "rchunks" ->
            IF ~live THEN NoStep
            ELSE LET at == lo + SatSub(L, n) IN Step(Some(<<at, hi>>), lo, at, at # lo)
      [] kind \in {"chunks_exact", "array_chunks"} ->
            IF L = 0 THEN NoStep ELSE Step(Some(<<lo, lo + n>>), lo + n, hi, TRUE)
      [] kind = "rchunks_exact" ->
            IF L = 0 THEN NoStep ELSE Step(Some(<<hi - n, hi>>), lo, hi - n, TRUE)

\* the code of `next_back` of the forward type
BackStep ==
    CASE kind \in {"iter", "copied"} -> IF lo < hi THEN Step(Some(<<hi - 1, hi>>), lo, hi - 1, TRUE) ELSE NoStep
      [] kind = "windows" -> IF L < n THEN NoStep ELSE Step(Some(<<hi - n, hi>>), lo, hi - 1, TRUE)
      [] kind = "chunks" ->
            IF ~live THEN NoStep
            ELSE LET at == lo + ((L - 1) \div n) * n IN Step(Some(<<at, hi>>), lo, at, at # lo)
      [] kind = "rchunks" ->
            IF ~live THEN NoStep
            ELSE LET r == L % n
                     at == lo + (IF r = 0 THEN n ELSE r)
                 IN Step(Some(<<lo, at>>), at, hi, at # hi)
      [] kind \in {"chunks_exact", "array_chunks"} ->
            IF L = 0 THEN NoStep ELSE Step(Some(<<hi - n, hi>>), lo, hi - n, TRUE)
      [] kind = "rchunks_exact" ->
            IF L = 0 THEN NoStep ELSE Step(Some(<<lo, lo + n>>), lo + n, hi, TRUE)

\* what the *current type* (forward or Rev) does for next / next_back
DoNext     == IF fwd THEN FrontStep ELSE BackStep
DoNextBack == IF fwd THEN BackStep ELSE FrontStep

Take(s, name) ==
    /\ IsSome(s.item)
    /\ lo' = s.lo /\ hi' = s.hi /\ live' = s.live
    /\ hist' = Append(hist, name)
    /\ UNCHANGED <<kind, len, n, rlo, rhi, fwd>>

Next_     == Take(DoNext, "next")
NextBack  == Take(DoNextBack, "next_back")
Rev       == /\ fwd' = ~fwd /\ hist' = Append(hist, "rev")
             /\ UNCHANGED <<kind, len, n, lo, hi, live, rlo, rhi>>

\* huge (zero-sized element) slices: only ZstDepth steps from the initial state
Shallow == len < 100 \/ Len(hist) < ZstDepth
Next == Shallow /\ (Next_ \/ NextBack \/ Rev)
Spec == Init /\ [][Next]_vars

-----------------------------------------------------------------------------
TypeOK == 0 <= lo /\ lo <= hi /\ hi <= len /\ rlo <= rhi /\ rhi <= len

\* the items the real (std) iterator over the remaining slice would still yield
Remaining == IF kind \in {"chunks", "rchunks"} /\ ~live THEN <<>> ELSE Partition(kind, lo, hi, n)

\* chunks/rchunks: the Option is None exactly when the remaining slice is empty
LiveInv == kind \in {"chunks", "rchunks"} => (live <=> lo # hi)

\* M's front / back item is the first / last item of std's partition of the remaining slice,
\* and M stops exactly when that partition is empty
Refines ==
    /\ FrontStep.item = (IF Remaining = <<>> THEN None ELSE Some(Remaining[1]))
    /\ BackStep.item  = (IF Remaining = <<>> THEN None ELSE Some(Remaining[Len(Remaining)]))
    \* after a front step the rest of the partition is unchanged (same for the back)
    /\ Remaining # <<>> =>
          /\ (IF kind \in {"chunks", "rchunks"} /\ ~FrontStep.live THEN <<>> ELSE Partition(kind, FrontStep.lo, FrontStep.hi, n))
                = Tail(Remaining)
          /\ (IF kind \in {"chunks", "rchunks"} /\ ~BackStep.live THEN <<>> ELSE Partition(kind, BackStep.lo, BackStep.hi, n))
                = SubSeq(Remaining, 1, Len(Remaining) - 1)

RemainderInv == kind \in ExactKinds => <<rlo, rhi>> = StdRemainder(kind, len, n)

\* every intermediate value of the index arithmetic of M stays within the slice length, hence within
\* usize whatever the size n is: the code may not form n + something or round up to a multiple of n
ArithInv ==
    LET mid == {L, SatSub(L, n), L % n, IF L = 0 THEN 0 ELSE ((L - 1) \div n) * n,
                IF n > L THEN 0 ELSE lo + n, IF n > L THEN 0 ELSE hi - n}
    IN \A x \in mid : 0 <= x /\ x <= len

\* every yielded window lies inside the remaining slice (C01)
ItemsInside == /\ IsSome(FrontStep.item) => lo <= FrontStep.item.some[1] /\ FrontStep.item.some[2] <= hi
               /\ IsSome(BackStep.item)  => lo <= BackStep.item.some[1]  /\ BackStep.item.some[2] <= hi
=============================================================================
