------------------------------ MODULE ParserMethod ------------------------------
(***************************************************************************)
(* C18: parser_method! — literal decoding by the proc macro                 *)
(* (konst_proc_macros::parsing) and the strip / find / trim forms.          *)
(*                                                                          *)
(* LitDecode: a literal token is its source text (code points).  DecodeStr  *)
(* transcribes parse_string: copy up to the next backslash, dispatch on the *)
(* escape byte (x u n r t \ 0 ' " , newline = line continuation that skips  *)
(* exactly the characters rustc skips: space, \t, \n, \r; `_` is ignored    *)
(* inside \u{..}); DecodeRaw strips r#..#".."#..#; concat! concatenates.    *)
(* The reference for the bytes is rustc itself: every program embeds        *)
(* `const L: &str = <literal>` and reports its bytes.                       *)
(*                                                                          *)
(* Forms (M = the generated code, R = the sentence of the property):        *)
(*   strip_*  first branch (then first alternative) that is a prefix/suffix *)
(*   find_*   earliest (latest) position where any alternative matches,     *)
(*            among those the first listed                                  *)
(*   trim_*   repeatedly remove the first listed alternative that matches,  *)
(*            until none (or an empty literal) does                         *)
(*   default  nothing matched: parser unchanged                             *)
(***************************************************************************)
EXTENDS Common, Utf8, ParserMethodLits, TLC

-----------------------------------------------------------------------------
(* LitDecode *)
HexVal(c) == IF 48 <= c /\ c <= 57 THEN c - 48 ELSE IF 97 <= c /\ c <= 102 THEN c - 87 ELSE c - 55
RECURSIVE HexNum(_, _)
HexNum(cs, acc) == IF cs = <<>> THEN acc
                   ELSE IF Head(cs) = 95 THEN HexNum(Tail(cs), acc)                   \* `_` inside \u{..}
                   ELSE HexNum(Tail(cs), acc * 16 + HexVal(Head(cs)))
RustWs == {32, 9, 10, 13}                                  \* what rustc skips after a line continuation
RECURSIVE SkipWs(_)
SkipWs(cs) == IF cs # <<>> /\ Head(cs) \in RustWs THEN SkipWs(Tail(cs)) ELSE cs
FirstIdxOf(cs, c) == SetMin({q \in 1..Len(cs) : cs[q] = c})

\* parse_string on the text between the quotes: sequence of code points
RECURSIVE DecodeBody(_)
DecodeBody(cs) ==
    IF cs = <<>> THEN <<>>
    ELSE IF Head(cs) # 92 THEN <<Head(cs)>> \o DecodeBody(Tail(cs))
    ELSE LET b == cs[2] rest == SubSeq(cs, 3, Len(cs)) IN
         CASE b = 120 -> <<HexNum(SubSeq(rest, 1, 2), 0)>> \o DecodeBody(SubSeq(rest, 3, Len(rest)))        \* \xNN
           [] b = 117 -> LET e == FirstIdxOf(rest, 125) IN                                                  \* \u{...}
                         <<HexNum(SubSeq(rest, 2, e - 1), 0)>> \o DecodeBody(SubSeq(rest, e + 1, Len(rest)))
           [] b = 110 -> <<10>> \o DecodeBody(rest)
           [] b = 114 -> <<13>> \o DecodeBody(rest)
           [] b = 116 -> <<9>> \o DecodeBody(rest)
           [] b = 92  -> <<92>> \o DecodeBody(rest)
           [] b = 48  -> <<0>> \o DecodeBody(rest)
           [] b = 39  -> <<39>> \o DecodeBody(rest)
           [] b = 34  -> <<34>> \o DecodeBody(rest)
           [] b \in {10, 13} -> DecodeBody(SkipWs(rest))                                                    \* line continuation
DecodeStr(src) == DecodeBody(SubSeq(src, 2, Len(src) - 1))
\* raw: r, hashes, quote ... quote, hashes
DecodeRaw(src) == LET h == SetMin({q \in 2..Len(src) : src[q] # 35}) - 2 IN SubSeq(src, h + 3, Len(src) - h - 1)
DecodePart(p) == IF p.kind = "raw" THEN DecodeRaw(p.src) ELSE DecodeStr(p.src)
RECURSIVE DecodeParts(_)
DecodeParts(ps) == IF ps = <<>> THEN <<>> ELSE DecodePart(Head(ps)) \o DecodeParts(Tail(ps))
RECURSIVE EncodeAll(_)
EncodeAll(cps) == IF cps = <<>> THEN <<>> ELSE Encode(Head(cps)) \o EncodeAll(Tail(cps))
LitOf(id) == CHOOSE l \in Lits : l.id = id
\* the bytes the macro matches for literal `id`
Bytes(id) == EncodeAll(DecodeParts(LitOf(id).parts))

-----------------------------------------------------------------------------
(* the forms.  alts: sequence of branches, each a sequence of byte strings.  Result: [b, lo, hi]:
   branch taken (0 = default) and the remainder window of the input s *)
Res(b, lo, hi) == [b |-> b, lo |-> lo, hi |-> hi]
\* all <<branch, alternative>> index pairs, and their order "first listed"
Pairs(alts) == UNION {{<<b, a>> : a \in 1..Len(alts[b])} : b \in 1..Len(alts)}
Before(p, q) == p[1] < q[1] \/ (p[1] = q[1] /\ p[2] < q[2])
FirstOf(S) == CHOOSE p \in S : \A q \in S : p = q \/ Before(p, q)
LitAt(alts, p) == alts[p[1]][p[2]]

(* R *)
StripR(alts, s, fromEnd) ==
    LET m == {p \in Pairs(alts) : IF fromEnd THEN IsSuffixOf(LitAt(alts, p), s) ELSE IsPrefixOf(LitAt(alts, p), s)} IN
    IF m = {} THEN Res(0, 0, Len(s))
    ELSE LET p == FirstOf(m) IN
         IF fromEnd THEN Res(p[1], 0, Len(s) - Len(LitAt(alts, p))) ELSE Res(p[1], Len(LitAt(alts, p)), Len(s))
FindR(alts, s, fromEnd) ==
    \* offsets (0-based start of the match) at which some alternative occurs
    LET hits == {o \in 0..Len(s) : \E p \in Pairs(alts) : OccursAt(s, LitAt(alts, p), o)} IN
    IF hits = {} THEN Res(0, 0, Len(s))
    ELSE IF ~fromEnd
    THEN LET o == SetMin(hits) p == FirstOf({q \in Pairs(alts) : OccursAt(s, LitAt(alts, q), o)}) IN
         Res(p[1], o + Len(LitAt(alts, p)), Len(s))
    ELSE \* latest *end* position
         LET ends == {e \in 0..Len(s) : \E p \in Pairs(alts) : e >= Len(LitAt(alts, p)) /\ OccursAt(s, LitAt(alts, p), e - Len(LitAt(alts, p)))}
             e == SetMax(ends)
             p == FirstOf({q \in Pairs(alts) : e >= Len(LitAt(alts, q)) /\ OccursAt(s, LitAt(alts, q), e - Len(LitAt(alts, q)))})
         IN Res(p[1], 0, e - Len(LitAt(alts, p)))
RECURSIVE TrimR(_, _, _, _)
TrimR(alts, s, lo, hi) ==      \* returns the window; fromEnd encoded by the caller swapping
    LET w == Slice(s, lo, hi)
        m == {p \in Pairs(alts) : IsPrefixOf(LitAt(alts, p), w)} IN
    IF m = {} \/ LitAt(alts, FirstOf(m)) = <<>> THEN <<lo, hi>>
    ELSE TrimR(alts, s, lo + Len(LitAt(alts, FirstOf(m))), hi)
RECURSIVE TrimEndR(_, _, _, _)
TrimEndR(alts, s, lo, hi) ==
    LET w == Slice(s, lo, hi)
        m == {p \in Pairs(alts) : IsSuffixOf(LitAt(alts, p), w)} IN
    IF m = {} \/ LitAt(alts, FirstOf(m)) = <<>> THEN <<lo, hi>>
    ELSE TrimEndR(alts, s, lo, hi - Len(LitAt(alts, FirstOf(m))))

(* M: the generated code *)
\* one `match bytes { pat | pat => .., .. }` over the branches in order: first matching <<branch, alt>>
RECURSIVE MatchArms(_, _, _, _, _)
MatchArms(alts, w, fromEnd, b, a) ==
    IF b > Len(alts) THEN <<0, 0>>
    ELSE IF a > Len(alts[b]) THEN MatchArms(alts, w, fromEnd, b + 1, 1)
    ELSE IF (IF fromEnd THEN IsSuffixOf(alts[b][a], w) ELSE IsPrefixOf(alts[b][a], w)) THEN <<b, a>>
    ELSE MatchArms(alts, w, fromEnd, b, a + 1)
StripM(alts, s, fromEnd) ==
    LET p == MatchArms(alts, s, fromEnd, 1, 1) IN
    IF p[1] = 0 THEN Res(0, 0, Len(s))
    ELSE IF fromEnd THEN Res(p[1], 0, Len(s) - Len(alts[p[1]][p[2]])) ELSE Res(p[1], Len(alts[p[1]][p[2]]), Len(s))
\* loop { match bytes { arms.. => break, _ => if let [_, rem @ ..] = bytes { bytes = rem } else { break default } } }
RECURSIVE FindLoop(_, _, _, _, _)
FindLoop(alts, s, fromEnd, lo, hi) ==
    LET p == MatchArms(alts, Slice(s, lo, hi), fromEnd, 1, 1) IN
    IF p[1] # 0 THEN (IF fromEnd THEN Res(p[1], 0, hi - Len(alts[p[1]][p[2]])) ELSE Res(p[1], lo + Len(alts[p[1]][p[2]]), Len(s)))
    ELSE IF lo = hi THEN Res(0, 0, Len(s))
    ELSE IF fromEnd THEN FindLoop(alts, s, fromEnd, lo, hi - 1) ELSE FindLoop(alts, s, fromEnd, lo + 1, hi)
FindM(alts, s, fromEnd) == FindLoop(alts, s, fromEnd, 0, Len(s))
\* while let pats = bytes { if rem.len() == bytes.len() { break } else { bytes = rem } }
RECURSIVE TrimLoop(_, _, _, _, _)
TrimLoop(alts, s, fromEnd, lo, hi) ==
    LET p == MatchArms(alts, Slice(s, lo, hi), fromEnd, 1, 1) IN
    IF p[1] = 0 \/ alts[p[1]][p[2]] = <<>> THEN <<lo, hi>>
    ELSE IF fromEnd THEN TrimLoop(alts, s, fromEnd, lo, hi - Len(alts[p[1]][p[2]]))
         ELSE TrimLoop(alts, s, fromEnd, lo + Len(alts[p[1]][p[2]]), hi)

FormR(form, alts, s) ==
    CASE form = "strip_prefix" -> StripR(alts, s, FALSE)
      [] form = "strip_suffix" -> StripR(alts, s, TRUE)
      [] form = "find_skip"    -> FindR(alts, s, FALSE)
      [] form = "rfind_skip"   -> FindR(alts, s, TRUE)
      [] form = "trim_start_matches" -> LET w == TrimR(alts, s, 0, Len(s)) IN Res(0, w[1], w[2])
      [] form = "trim_end_matches"   -> LET w == TrimEndR(alts, s, 0, Len(s)) IN Res(0, w[1], w[2])
FormM(form, alts, s) ==
    CASE form = "strip_prefix" -> StripM(alts, s, FALSE)
      [] form = "strip_suffix" -> StripM(alts, s, TRUE)
      [] form = "find_skip"    -> FindM(alts, s, FALSE)
      [] form = "rfind_skip"   -> FindM(alts, s, TRUE)
      [] form = "trim_start_matches" -> LET w == TrimLoop(alts, s, FALSE, 0, Len(s)) IN Res(0, w[1], w[2])
      [] form = "trim_end_matches"   -> LET w == TrimLoop(alts, s, TRUE, 0, Len(s)) IN Res(0, w[1], w[2])
=============================================================================
