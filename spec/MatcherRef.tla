----------------------------- MODULE MatcherRef ------------------------------
(* Reference (declarative) semantics of pattern search, shared by Matcher, Split and Parser. *)
EXTENDS Common

Find(h, n)  == IF Occ(h, n) = {} THEN None ELSE Some(SetMin(Occ(h, n)))
RFind(h, n) == IF Occ(h, n) = {} THEN None ELSE Some(SetMax(Occ(h, n)))

\* result of op given the match offset o (an option)
Derived(op, h, n, o) ==
    CASE op \in {"find", "rfind"}          -> o
      [] op \in {"contains", "rcontains"}  -> IsSome(o)
      [] op = "find_skip"   -> IF IsNone(o) THEN None ELSE Some(From(h, o.some + Len(n)))
      [] op = "find_keep"   -> IF IsNone(o) THEN None ELSE Some(From(h, o.some))
      [] op = "rfind_skip"  -> IF IsNone(o) THEN None ELSE Some(UpTo(h, o.some))
      [] op = "rfind_keep"  -> IF IsNone(o) THEN None ELSE Some(UpTo(h, o.some + Len(n)))
      [] op \in {"split_once", "rsplit_once"} ->
            IF IsNone(o) THEN None ELSE Some(<<UpTo(h, o.some), From(h, o.some + Len(n))>>)


\* std: str::split_once / rsplit_once as <<before, after>> or None
SplitOnce(h, n)  == Derived("split_once", h, n, Find(h, n))
RSplitOnce(h, n) == Derived("rsplit_once", h, n, RFind(h, n))
=============================================================================
