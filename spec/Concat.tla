-------------------------------- MODULE Concat --------------------------------
(***************************************************************************)
(* C20 (concatenation part): str_concat!, str_join!, string::from_iter!,   *)
(* slice_concat!.                                                          *)
(*  M : the two phases of the expansion: (1) LEN = sum of the piece        *)
(*      lengths (+ separator length x (n-1)) computed by a first const fn, *)
(*      (2) a second const fn fills `[0u8; LEN]` piece by piece, byte by   *)
(*      byte.  Checked: every write is inside the array, the number of     *)
(*      bytes written equals LEN, and the content is the reference.        *)
(*  R : std concat / join.                                                 *)
(***************************************************************************)
EXTENDS Common, Utf8, TLC

CONSTANTS Lists,    \* set of lists of pieces (byte strings)
          Seps      \* separators (byte strings)

VARIABLES form, pieces, sep, phase, k, j, len, out, wrote
vars == <<form, pieces, sep, phase, k, j, len, out, wrote>>

RECURSIVE Join(_, _)
Join(sp, ps) == IF ps = <<>> THEN <<>>
                ELSE IF Len(ps) = 1 THEN ps[1]
                ELSE ps[1] \o sp \o Join(sp, Tail(ps))
Ref(f, sp, ps) == IF f = "join" THEN Join(sp, ps) ELSE Concat(ps)

Init == /\ form \in {"concat", "join"} /\ pieces \in Lists
        /\ sep \in (IF form = "join" THEN Seps ELSE {<<>>})
        /\ phase = "sum" /\ k = 0 /\ j = 0 /\ len = 0 /\ out = <<>> /\ wrote = 0

\* phase 1: concat_sum_lengths / join_sum_lengths
Sum == /\ phase = "sum" /\ UNCHANGED <<form, pieces, sep, j, wrote>>
       /\ IF k < Len(pieces) THEN len' = len + Len(pieces[k + 1]) /\ k' = k + 1 /\ UNCHANGED <<phase, out>>
          ELSE /\ len' = IF form = "join" /\ pieces # <<>> THEN len + Len(sep) * (Len(pieces) - 1) ELSE len
               /\ out' = [q \in 1..len' |-> 0]           \* let mut out = [0u8; LEN]
               /\ phase' = "fill" /\ k' = 0

\* the byte sequence the fill loop goes through for element k: the piece, preceded by the separator for k > 0
Chunk(q) == IF form = "join" /\ q > 0 THEN sep \o pieces[q + 1] ELSE pieces[q + 1]

\* phase 2: out[out_i] = slice[i]; out_i += 1
Fill == /\ phase = "fill" /\ UNCHANGED <<form, pieces, sep, len>>
        /\ IF k = Len(pieces) THEN phase' = "done" /\ UNCHANGED <<k, j, out, wrote>>
           ELSE IF j = Len(Chunk(k)) THEN k' = k + 1 /\ j' = 0 /\ UNCHANGED <<phase, out, wrote>>
           ELSE /\ out' = [out EXCEPT ![wrote + 1] = Chunk(k)[j + 1]]
                /\ wrote' = wrote + 1 /\ j' = j + 1 /\ UNCHANGED <<phase, k>>

Next == Sum \/ Fill
Spec == Init /\ [][Next]_vars

WritesInBounds == phase = "fill" /\ k < Len(pieces) /\ j < Len(Chunk(k)) => wrote + 1 <= len
Refines == phase = "done" => wrote = len /\ out = Ref(form, sep, pieces)
\* the array handed to from_utf8_unchecked is valid UTF-8 when all pieces and the separator are
Utf8Out == phase = "done" /\ (\A q \in 1..Len(pieces) : ValidUtf8(pieces[q])) /\ ValidUtf8(sep) => ValidUtf8(out)
=============================================================================
