------------------------------- MODULE Common -------------------------------
(***************************************************************************)
(* Shared operators of the konst specification.                            *)
(*                                                                         *)
(* Conventions used by every module:                                       *)
(*  - byte strings and slices are TLA+ sequences of naturals (1-based on   *)
(*    the TLA+ side, rendered as JSON arrays);                             *)
(*  - *offsets* are 0-based like in the Rust code: offset i designates the *)
(*    position before element i+1;                                         *)
(*  - Option/Result values are records {none}/{some}, {ok}/{err}, a panic  *)
(*    of the code under test is the value {panic} (a panic is data).       *)
(***************************************************************************)
EXTENDS Naturals, Integers, Sequences, FiniteSets

MinOf(a, b) == IF a < b THEN a ELSE b
MaxOf(a, b) == IF a > b THEN a ELSE b

SetMin(S) == CHOOSE x \in S : \A y \in S : x <= y
SetMax(S) == CHOOSE x \in S : \A y \in S : x >= y

None      == [none |-> 1]
Some(v)   == [some |-> v]
IsNone(o) == "none" \in DOMAIN o
IsSome(o) == "some" \in DOMAIN o
Ok(v)     == [ok |-> v]
Err(v)    == [err |-> v]
Panic     == [panic |-> 1]

\* all sequences over A of length 0..n
SeqsUpTo(A, n) == UNION {[1..k -> A] : k \in 0..n}

\* 0-based slicing helpers: s[a..b), s[a..], s[..b)
Slice(s, a, b) == SubSeq(s, a + 1, b)
From(s, a)     == SubSeq(s, a + 1, Len(s))
UpTo(s, b)     == SubSeq(s, 1, b)

IsPrefixOf(p, s) == Len(p) <= Len(s) /\ SubSeq(s, 1, Len(p)) = p
IsSuffixOf(p, s) == Len(p) <= Len(s) /\ SubSeq(s, Len(s) - Len(p) + 1, Len(s)) = p

\* n occurs in h at 0-based offset i
OccursAt(h, n, i) == i + Len(n) <= Len(h) /\ SubSeq(h, i + 1, i + Len(n)) = n
Occ(h, n)         == {i \in 0..Len(h) : OccursAt(h, n, i)}

RECURSIVE Concat(_)
Concat(ss) == IF ss = <<>> THEN <<>> ELSE Head(ss) \o Concat(Tail(ss))

RECURSIVE Repeat(_, _)
Repeat(s, k) == IF k = 0 THEN <<>> ELSE s \o Repeat(s, k - 1)

ReverseSeq(s) == [i \in 1..Len(s) |-> s[Len(s) - i + 1]]

\* ascending sequence of a finite set of integers
RECURSIVE SetToSeqAsc(_)
SetToSeqAsc(S) == IF S = {} THEN <<>> ELSE <<SetMin(S)>> \o SetToSeqAsc(S \ {SetMin(S)})

RECURSIVE SumSeq(_)
SumSeq(s) == IF s = <<>> THEN 0 ELSE Head(s) + SumSeq(Tail(s))

(***************************************************************************)
(* Machine words.  TLC integers are 32-bit, so the `usize` of the code is  *)
(* modelled with W bits (W = 8 in the model-checking configurations): the  *)
(* guards of the code only compare, subtract with an overflow flag and     *)
(* cast to isize, all of which are defined here on the W-bit word.         *)
(***************************************************************************)
Pow2(n) == 2 ^ n
WordMax(W)  == Pow2(W) - 1           \* usize::MAX
IWordMax(W) == Pow2(W - 1) - 1       \* isize::MAX
\* overflowing_sub on W-bit words: <<wrapped result, overflow flag>>
OvSub(W, a, b) == IF a >= b THEN <<a - b, FALSE>> ELSE <<a - b + Pow2(W), TRUE>>
OvAdd(W, a, b) == IF a + b <= WordMax(W) THEN <<a + b, FALSE>> ELSE <<a + b - Pow2(W), TRUE>>
OvMul(W, a, b) == IF a * b <= WordMax(W) THEN <<a * b, FALSE>> ELSE <<(a * b) % Pow2(W), TRUE>>
SatSub(a, b)   == IF a >= b THEN a - b ELSE 0
\* `x as isize` of a W-bit word
AsSigned(W, x) == IF x <= IWordMax(W) THEN x ELSE x - Pow2(W)
\* s repeated k times (k >= 0)
RepSeq(s, k) == [q \in 1..(k * Len(s)) |-> s[((q - 1) % Len(s)) + 1]]
\* repetition counts at which narrow counters, block sizes and recursion limits change behaviour: every small count,
\* the neighbours of 64 / 128 / 256 (a length or an offset kept in a u8 wraps at 256)
RepCounts == (0..40) \cup {63, 64, 65, 127, 128, 129, 254, 255, 256, 257, 258}
=============================================================================
