------------------------------ MODULE Matcher -------------------------------
(***************************************************************************)
(* Pattern search of konst (C04): string::{find, rfind, contains,          *)
(* rcontains, find_skip, find_keep, rfind_skip, rfind_keep, split_once,    *)
(* rsplit_once} and the slice::bytes_* twins.                              *)
(*                                                                         *)
(*  R  (reference)  : declarative, from the set Occ(h, n) of offsets at    *)
(*                    which the needle occurs.                             *)
(*  M  (machine)    : the search loop of the code, one action per          *)
(*                    comparison: windowed search calling the strip-prefix *)
(*                    loop at every candidate offset (__bytes_find,        *)
(*                    __bytes_rfind, and the skip/keep wrappers).          *)
(*                    The restart-on-first-byte heuristic that the pinned  *)
(*                    tree used before the F1 repair is transcribed in     *)
(*                    legacy/MatcherLegacy.tla; TLC refutes it.            *)
(***************************************************************************)
EXTENDS Common, MatcherRef, TLC

CONSTANTS Pairs     \* set of <<haystack, needle>> pairs of byte strings

FwdOps == {"find", "contains", "find_skip", "find_keep", "split_once"}
BwdOps == {"rfind", "rcontains", "rfind_skip", "rfind_keep", "rsplit_once"}
Ops    == FwdOps \cup BwdOps

-----------------------------------------------------------------------------
(* R *)
\* Find, RFind, Derived: see MatcherRef.tla
\* The property quantifies the reverse *offset* over non-empty patterns only; the
\* documented results for an empty needle are: rfind_skip/rfind_keep = Some(this),
\* rsplit_once = (this, ""), rcontains = true.  `rfind(h, "")` is left unspecified
\* (the repository pins len.saturating_sub(1), std gives len).
Specified(op, h, n) == ~(op = "rfind" /\ n = <<>>)

Ref(op, h, n) ==
    IF n = <<>> /\ op \in {"find_skip", "find_keep", "rfind_skip", "rfind_keep"} THEN Some(h)
    ELSE IF op \in FwdOps THEN Derived(op, h, n, Find(h, n))
    ELSE Derived(op, h, n, RFind(h, n))

-----------------------------------------------------------------------------
(* M *)
VARIABLES op, h, n, i, j, off, pc, res
vars == <<op, h, n, i, j, off, pc, res>>

Init == /\ op \in Ops /\ \E p \in Pairs : h = p[1] /\ n = p[2]
        /\ i = 0 /\ j = 0 /\ off = None /\ pc = "start" /\ res = None

\* entry of __bytes_find / __bytes_rfind (after the empty-needle shortcut of the wrappers)
Start ==
    /\ pc = "start"
    /\ UNCHANGED <<op, h, n, res>>
    /\ IF n = <<>> /\ op \in {"find_skip", "find_keep", "rfind_skip", "rfind_keep"}
       THEN pc' = "shortcut" /\ UNCHANGED <<i, j, off>>
       ELSE IF n = <<>> /\ op \in BwdOps
       THEN \* __bytes_rfind: `if pattern.is_empty() { return Some(len.saturating_sub(1)) }`
            \* rsplit_once never gets here (it splits at len itself)
            /\ off' = IF op = "rsplit_once" THEN Some(Len(h)) ELSE Some(SatSub(Len(h), 1))
            /\ pc' = "finish" /\ UNCHANGED <<i, j>>
       ELSE IF Len(n) > Len(h)
       THEN pc' = "finish" /\ off' = None /\ UNCHANGED <<i, j>>
       ELSE /\ i' = IF op \in FwdOps THEN 0 ELSE Len(h) - Len(n)
            /\ j' = 0 /\ pc' = "scan" /\ UNCHANGED off

\* one iteration of the strip-prefix loop at candidate offset i
Cmp ==
    /\ pc = "scan"
    /\ UNCHANGED <<op, h, n, i, res>>
    /\ IF j = Len(n) THEN off' = Some(i) /\ pc' = "finish" /\ UNCHANGED j
       ELSE IF h[i + j + 1] = n[j + 1] THEN j' = j + 1 /\ UNCHANGED <<off, pc>>
       ELSE pc' = "advance" /\ UNCHANGED <<j, off>>

Advance ==
    /\ pc = "advance"
    /\ UNCHANGED <<op, h, n, res>>
    /\ IF op \in FwdOps
       THEN IF i = Len(h) - Len(n) THEN off' = None /\ pc' = "finish" /\ UNCHANGED <<i, j>>
            ELSE i' = i + 1 /\ j' = 0 /\ pc' = "scan" /\ UNCHANGED off
       ELSE IF i = 0 THEN off' = None /\ pc' = "finish" /\ UNCHANGED <<i, j>>
            ELSE i' = i - 1 /\ j' = 0 /\ pc' = "scan" /\ UNCHANGED off

Finish ==
    /\ pc \in {"finish", "shortcut"}
    /\ res' = IF pc = "shortcut" THEN Some(h) ELSE Derived(op, h, n, off)
    /\ pc' = "done"
    /\ UNCHANGED <<op, h, n, i, j, off>>

Next == Start \/ Cmp \/ Advance \/ Finish
Spec == Init /\ [][Next]_vars

-----------------------------------------------------------------------------
(* checked *)
TypeOK == /\ pc \in {"start", "scan", "advance", "finish", "shortcut", "done"}
          /\ i \in 0..Len(h) /\ j \in 0..Len(n)

\* memory safety of the scan: every byte read is inside the haystack / needle
ReadsInBounds == pc = "scan" /\ j < Len(n) => i + j + 1 <= Len(h)

Refines == pc = "done" /\ Specified(op, h, n) => res = Ref(op, h, n)

\* every returned slice is a window of the haystack (C01)
ResultInside ==
    pc = "done" /\ op \in {"find_skip", "find_keep", "rfind_skip", "rfind_keep"} /\ IsSome(res)
        => \E a \in 0..Len(h) : \E b \in a..Len(h) : res.some = Slice(h, a, b)
=============================================================================
