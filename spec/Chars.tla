-------------------------------- MODULE Chars --------------------------------
(***************************************************************************)
(* C07: string::chars / char_indices (+ their Rev twins) stepped from both  *)
(* ends, as_str, and the char <-> UTF-8 / u32 conversions.                  *)
(*                                                                          *)
(* State = the struct's fields: `this` as the window [lo,hi) of the         *)
(* original string s, start_offset (char_indices only; advanced only by     *)
(* front steps), and fwd (FALSE = the R* type).                             *)
(*                                                                          *)
(*  M : __find_next_char_boundary / __find_prev_char_boundary scans with    *)
(*      the forgiving predicate, split_at, then the shift-and-mask decoder  *)
(*      string_to_usv followed by an *unchecked* cast to char.              *)
(*  R : the characters of s (CharStarts / DecodeSeq of Utf8.tla).           *)
(***************************************************************************)
EXTENDS Common, Utf8, TLC

CONSTANTS Strs

VARIABLES kind, s, lo, hi, so, fwd, hist
vars == <<kind, s, lo, hi, so, fwd, hist>>
View == <<kind, s, lo, hi, so, fwd>>

-----------------------------------------------------------------------------
(* M *)
\* position >= len || byte is not a continuation byte
Forgiving(bs, p) == p >= Len(bs) \/ IsLead(bs[p + 1])

RECURSIVE ScanUp(_, _)
ScanUp(bs, p) == IF Forgiving(bs, p) THEN p ELSE ScanUp(bs, p + 1)
NextBoundary(bs, p) == ScanUp(bs, p + 1)                 \* loop { position += 1; if boundary {break} }
RECURSIVE ScanDown(_, _)
ScanDown(bs, p) == IF Forgiving(bs, p) THEN p ELSE ScanDown(bs, p - 1)
PrevBoundary(bs, p) == ScanDown(bs, SatSub(p, 1))        \* saturating_sub(1) then scan down

\* string_to_usv: masks, not subtraction; `& 0x7F` on the second byte of the 2-byte form
DecodeImpl(bs) ==
    CASE Len(bs) = 1 -> bs[1]
      [] Len(bs) = 2 -> (bs[1] % 32) * 64 + (bs[2] % 128)
      [] Len(bs) = 3 -> (bs[1] % 16) * 4096 + (bs[2] % 64) * 64 + (bs[3] % 64)
      [] Len(bs) = 4 -> (bs[1] % 8) * 262144 + (bs[2] % 64) * 4096 + (bs[3] % 64) * 64 + (bs[4] % 64)
      [] OTHER -> 0

This == Slice(s, lo, hi)

\* the code of `next` / `next_back` of the forward types: [item |-> None | Some(<<offset, scalar>>), lo, hi, so]
Step(item, nlo, nhi, nso) == [item |-> item, lo |-> nlo, hi |-> nhi, so |-> nso]
FrontStep == IF lo = hi THEN Step(None, lo, hi, so)
         ELSE LET cut == NextBoundary(This, 0) IN
              Step(Some(<<so, DecodeImpl(SubSeq(This, 1, cut))>>), lo + cut, hi, so + cut)
BackStep  == IF lo = hi THEN Step(None, lo, hi, so)
         ELSE LET cut == PrevBoundary(This, Len(This)) IN
              Step(Some(<<so + cut, DecodeImpl(SubSeq(This, cut + 1, Len(This)))>>), lo, lo + cut, so)

DoNext     == IF fwd THEN FrontStep ELSE BackStep
DoNextBack == IF fwd THEN BackStep ELSE FrontStep

Init == /\ kind \in {"chars", "char_indices"} /\ s \in Strs
        /\ lo = 0 /\ hi = Len(s) /\ so = 0 /\ fwd = TRUE /\ hist = <<>>

Take(st, name) == /\ IsSome(st.item) /\ lo' = st.lo /\ hi' = st.hi /\ so' = st.so
                  /\ hist' = Append(hist, name) /\ UNCHANGED <<kind, s, fwd>>
Next_    == Take(DoNext, "next")
NextBack == Take(DoNextBack, "next_back")
Rev      == fwd' = ~fwd /\ hist' = Append(hist, "rev") /\ UNCHANGED <<kind, s, lo, hi, so>>
Next == Next_ \/ NextBack \/ Rev
Spec == Init /\ [][Next]_vars

-----------------------------------------------------------------------------
(* R *)
\* the characters of s as <<byte offset, scalar value>>, in order
RECURSIVE CharList(_, _)
CharList(bs, off) == IF bs = <<>> THEN <<>>
                     ELSE LET w == WidthOf(bs[1]) IN
                          <<<<off, DecodeSeq(SubSeq(bs, 1, w))>>>> \o CharList(SubSeq(bs, w + 1, Len(bs)), off + w)
AllChars == CharList(s, 0)
\* the characters not yet yielded: those starting inside [lo, hi)
Remaining == SelectSeq(AllChars, LAMBDA c : lo <= c[1] /\ c[1] < hi)

WindowInv == /\ 0 <= lo /\ lo <= hi /\ hi <= Len(s)
             /\ IsCharBoundary(s, lo) /\ IsCharBoundary(s, hi)          \* as_str() is a str (C01)
             /\ so = lo                                                    \* start_offset is the byte index

Refines ==
    /\ FrontStep.item = (IF Remaining = <<>> THEN None ELSE Some(Remaining[1]))
    /\ BackStep.item  = (IF Remaining = <<>> THEN None ELSE Some(Remaining[Len(Remaining)]))

\* precondition of from_u32_unchecked: what the decoder produced is a scalar value
ScalarInv == /\ IsSome(FrontStep.item) => IsScalar(FrontStep.item.some[2])
             /\ IsSome(BackStep.item)  => IsScalar(BackStep.item.some[2])
=============================================================================
