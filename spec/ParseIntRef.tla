---------------------------- MODULE ParseIntRef -----------------------------
(***************************************************************************)
(* Reference semantics of decimal integer parsing on *digit sequences*     *)
(* (TLC integers are 32-bit; 64/128-bit bounds are compared as sequences   *)
(* of decimal digits: strip leading zeros, then (length, lexicographic)).  *)
(***************************************************************************)
EXTENDS Common

IsDigit(b) == 48 <= b /\ b <= 57

\* number of leading ASCII digits of s
DigitRunLen(s) == IF \A i \in 1..Len(s) : IsDigit(s[i]) THEN Len(s)
                  ELSE SetMin({i \in 1..Len(s) : ~IsDigit(s[i])}) - 1

\* digit values 0..9 of an all-digit byte string
DigitsOf(s) == [i \in 1..Len(s) |-> s[i] - 48]

\* drop leading zeros (the number zero is the empty sequence)
StripZeros(ds) == IF \A i \in 1..Len(ds) : ds[i] = 0 THEN <<>>
                  ELSE SubSeq(ds, SetMin({i \in 1..Len(ds) : ds[i] # 0}), Len(ds))

\* a <= b for digit sequences without leading zeros
LeqDigits(a, b) ==
    \/ Len(a) < Len(b)
    \/ /\ Len(a) = Len(b)
       /\ \/ a = b
          \/ \E i \in 1..Len(a) : a[i] < b[i] /\ \A j \in 1..(i - 1) : a[j] = b[j]

RECURSIVE ValOf(_)
ValOf(ds) == IF ds = <<>> THEN 0 ELSE ValOf(SubSeq(ds, 1, Len(ds) - 1)) * 10 + ds[Len(ds)]

\* Prefix parse of the byte string s for a type with magnitude bounds maxPos / maxNegAbs
\* (digit sequences).  Result: None, or the sign, the magnitude (stripped digits) and the bytes consumed.
PrefixParse(s, signed, maxPos, maxNegAbs) ==
    LET neg  == signed /\ s # <<>> /\ s[1] = 45
        body == IF neg THEN Tail(s) ELSE s
        k    == DigitRunLen(body)
        ds   == StripZeros(DigitsOf(SubSeq(body, 1, k)))
    IN IF k = 0 THEN None
       ELSE IF LeqDigits(ds, IF neg THEN maxNegAbs ELSE maxPos)
       THEN Some([neg |-> neg, mag |-> ds, consumed |-> k + (IF neg THEN 1 ELSE 0)])
       ELSE None
=============================================================================
