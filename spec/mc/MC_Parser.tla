------------------------------ MODULE MC_Parser ------------------------------
(* Exhaustive configuration of Parser.tla.  The graph is finite, so TLC covers operation histories
   of every length.  One JSON line per distinct state is appended to IOEnv.OUT: the witness path
   (history variable hidden from the fingerprint by VIEW), the expected observation at that state and
   the expected outcome of every operation applied to it. *)
EXTENDS Parser, Json, IOUtils, SequencesExt

CONSTANTS MaxChars, WithMinus

Letters  == {<<97>>, <<44>>, CNT, <<32>>, <<49>>} \cup (IF WithMinus THEN {<<45>>} ELSE {})
MCPats   == {<<97>>, CNT, <<44>>, <<97, 97>>}
MCDelims == {<<44>>, <<97, 44>>}

\* second family (Parser.wide.cfg): multi-byte characters that share bytes at different positions and
\* characters at the ends of the 2- and 3-byte encodings, to stress the char-boundary rounding of skip /
\* skip_back and the byte-wise search under the string operations
WideLetters == {CSQRT, CSQRT2, Encode(65535), Encode(2047), <<97>>}
WidePats    == {CSQRT, Encode(65535), <<97>>, CSQRT \o CSQRT2}
WideDelims  == {CSQRT2, <<97>> \o Encode(65535)}

MCOrigs == StrsUpTo(Letters, MaxChars)
OpSeq   == SetToSeq(OpSet)

Out(o) ==
    LET e == Effect(o, Rem, yls) IN
    IF e.ok
    THEN [o |-> o, ok |-> 1, lo |-> lo + e.cs, hi |-> hi - e.ce, so |-> NewSo(o, e),
          dir |-> IF PmUnchanged(o, e) THEN dir ELSE DirOf(o.op),
          ret |-> IF Returns(o.op) THEN e.ret ELSE 0]
    ELSE [o |-> o, ok |-> 0, off |-> ErrOf(o, e).off, dir |-> ErrOf(o, e).dir,
          \* the error kind is part of the property only for the split / rsplit protocol
          kind |-> IF o.op \in {"split", "rsplit"} THEN e.kind ELSE "",
          \* beyond the listed properties: the kind of every error and the text of its Display / panic message
          xkind |-> e.kind, msg |-> ErrMsg(o, e)]

Line == [m |-> "Parser", s |-> orig, base |-> base, path |-> hist,
         st |-> [lo |-> lo, hi |-> hi, so |-> so, dir |-> dir],
         outs |-> [i \in 1..Len(OpSeq) |-> Out(OpSeq[i])]]

EmitInv == Serialize(ToJson(Line) \o "\n", IOEnv.OUT,
                     [format |-> "TXT", charset |-> "UTF-8", openOptions |-> <<"WRITE", "CREATE", "APPEND">>]).exitValue = 0
=============================================================================
