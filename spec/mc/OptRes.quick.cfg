SPECIFICATION Spec
CONSTANTS
  MaxRebind = 4
INVARIANTS Refines
POSTCONDITION Emit
CHECK_DEADLOCK FALSE
