SPECIFICATION Spec
CONSTANTS
  MaxRebind = 5
INVARIANTS Refines
POSTCONDITION Emit
CHECK_DEADLOCK FALSE
