SPECIFICATION Spec
CONSTANTS
  N = 2
  MaxVals = 6
VIEW View
INVARIANTS AssumePre NoDup EmitInv
CHECK_DEADLOCK FALSE
