SPECIFICATION Spec
CONSTANTS
  Hays <- MCHays
  Needles <- MCNeedles
  AB_H = 8
  AB_N = 5
  U_H = 4
  RAW_H = 4
  RAW_N = 3
  U_N = 3
INVARIANTS TypeOK ReadsInBounds Refines ResultInside
POSTCONDITION Emit
CHECK_DEADLOCK FALSE
