SPECIFICATION Spec
CONSTANTS
  Pairs <- MCPairsL
  AB_H = 10
  AB_N = 5
  U_H = 6
  RAW_H = 5
  RAW_N = 3
  U_N = 3
INVARIANTS TypeOK ReadsInBounds Refines ResultInside
POSTCONDITION Emit
CHECK_DEADLOCK FALSE
