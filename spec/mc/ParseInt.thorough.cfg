SPECIFICATION Spec
CONSTANTS
  Inputs <- MCInputs
  MaxTokens = 4
  SmallRange = 1000
INVARIANTS Refines ReadsInBounds
POSTCONDITION Emit
CHECK_DEADLOCK FALSE
