-------------------------------- MODULE MC_Cmp --------------------------------
EXTENDS Cmp, Json, IOUtils, SequencesExt
CONSTANTS FlatLen, NestOuter, NestInner, Scalars

MCFlat   == SeqsUpTo({0, 1, 2}, FlatLen)
MCNested == SeqsUpTo(SeqsUpTo({0, 1}, NestInner), NestOuter)
Opt(S)   == {None} \cup {Some(x) : x \in S}

ASSUME Laws(MCFlat, LexFlat)
ASSUME Laws(MCNested, LexNested)
ASSUME Laws(0..Scalars, IntCmp)

Vec(k, o, a, b) == [m |-> "Cmp", kind |-> k, opt |-> o, l |-> a, r |-> b,
                    eq |-> a = b,
                    cmp |-> IF o = 1 THEN RefOptCmp(k, a, b) ELSE RefCmp(k, a, b)]
\* keys are grouped by kind so that each set is homogeneous
Emit ==
    LET s1 == SetToSeq(MCFlat \X MCFlat)
        s2 == SetToSeq(MCNested \X MCNested)
        s3 == SetToSeq((0..Scalars) \X (0..Scalars))
        o1 == SetToSeq(Opt(SeqsUpTo({0, 1, 2}, 2)) \X Opt(SeqsUpTo({0, 1, 2}, 2)))
        o3 == SetToSeq(Opt(0..Scalars) \X Opt(0..Scalars))
        rc == SetToSeq({x \in MCFlat \X MCFlat : Len(x[1]) = RecordFields /\ Len(x[2]) = RecordFields})
        p4 == SetToSeq(((0..2) \X (0..2)) \X ((0..2) \X (0..2)))
    IN ndJsonSerialize(IOEnv.OUT,
            [q \in 1..Len(s1) |-> Vec("flat", 0, s1[q][1], s1[q][2])]
         \o [q \in 1..Len(s2) |-> Vec("nested", 0, s2[q][1], s2[q][2])]
         \o [q \in 1..Len(s3) |-> Vec("scalar", 0, s3[q][1], s3[q][2])]
         \o [q \in 1..Len(rc) |-> Vec("record", 0, rc[q][1], rc[q][2])]
         \o [q \in 1..Len(o1) |-> Vec("flat", 1, o1[q][1], o1[q][2])]
         \o [q \in 1..Len(o3) |-> Vec("scalar", 1, o3[q][1], o3[q][2])]
         \o [q \in 1..Len(p4) |-> [m |-> "Cmp", kind |-> "pair", opt |-> 0, l |-> p4[q][1], r |-> p4[q][2],
                                    eq |-> p4[q][1] = p4[q][2], cmp |-> "Equal"]])
=============================================================================
