SPECIFICATION MCSpec
CONSTANTS
  W = 8
  Lens = {0,1,2,3,4,5,6,7,8,9,10,11,12,13}
  ZstLens = {0,1,3,127,128,200,255}
  Sizes = {1,2,8}
  Ns = {1,2,3,4,5,6,7,8,10,12}
  PairIdx = {0,1,2,3,4,5,6,7,8,9,125,126,127,128,129,130,250,251,252,253,254,255}
INVARIANTS UnsafePre Refines SplitDisjoint
POSTCONDITION Emit
CHECK_DEADLOCK FALSE
