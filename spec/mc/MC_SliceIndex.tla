---------------------------- MODULE MC_SliceIndex ----------------------------
EXTENDS SliceIndex, Json, IOUtils, SequencesExt

CONSTANTS PairIdx       \* index values explored for the two-index operations

\* Init of SliceIndex with the two-index operations restricted to PairIdx x PairIdx
MCInit ==
    /\ Init
    /\ op \in Ops2 => a \in PairIdx /\ b \in PairIdx

MCSpec == MCInit /\ [][Next]_vars

\* vectors replayed on the real code: indices near the anchors 0, isize::MAX, isize::MAX+1, usize::MAX
\* (the harness maps a model value to anchor + delta, see DESIGN §3-2)
Rep     == (0..8) \cup {125, 126, 127, 128, 129, 130} \cup {250, 251, 252, 253, 254, 255}
RepLens == 0..6
RepZst  == {0, 1, 3, 127, 128, 253, 255}

Vec(o, z, l, x, y) == [m |-> "SliceIndex", op |-> o, zst |-> z, len |-> l, a |-> x, b |-> y, exp |-> Ref(o, l, x, y)]
\* keys are homogeneous tuples (cheap to normalise); the records are built as a sequence
Keys ==
    {<<o, 0, l, x, 0>> : o \in Ops1, l \in RepLens, x \in Rep}
      \cup {<<o, 0, l, x, y>> : o \in Ops2, l \in RepLens, x \in Rep, y \in Rep}
      \cup {<<o, 0, l, x, 0>> : o \in OpsN, l \in 0..25, x \in Ns}
      \cup {<<o, z, l, 0, 0>> : o \in Ops0, z \in {0, 1}, l \in 0..6}
      \cup {<<o, 1, l, 0, 0>> : o \in Ops0, l \in RepZst}
      \cup {<<o, 1, l, x, 0>> : o \in Ops1, l \in RepZst, x \in Rep}
      \cup {<<o, 1, l, x, y>> : o \in Ops2, l \in RepZst, x \in Rep, y \in Rep}
      \cup {<<o, 1, l, x, 0>> : o \in OpsN, l \in 0..13, x \in Ns}
Emit == LET ks == SetToSeq(Keys) IN
        ndJsonSerialize(IOEnv.OUT, [q \in 1..Len(ks) |-> Vec(ks[q][1], ks[q][2], ks[q][3], ks[q][4], ks[q][5])])
=============================================================================
