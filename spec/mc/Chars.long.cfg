SPECIFICATION Spec
CONSTANTS
  Strs <- LongStrs
  MaxChars = 4
  Wide = FALSE
VIEW View
INVARIANTS WindowInv Refines ScalarInv EmitInv
CHECK_DEADLOCK FALSE
