------------------------------ MODULE MC_ParseInt ------------------------------
EXTENDS ParseInt, ParseIntBoundary, Json, IOUtils, SequencesExt
CONSTANTS MaxTokens, SmallRange

\* tokens: digits 0 1 2 5 9, '-', '+', 'a', ' ', ARABIC-INDIC DIGIT THREE (non-ASCII digit),
\* and the ASCII neighbours of the digit range: '/' (0x2F) and ':' (0x3A)
Tokens == {<<48>>, <<49>>, <<50>>, <<53>>, <<57>>, <<45>>, <<43>>, <<97>>, <<32>>, <<217, 163>>, <<47>>, <<58>>}
TokenStrs == {Concat(ts) : ts \in SeqsUpTo(Tokens, MaxTokens)}

\* decimal text of a natural number
RECURSIVE Dec(_)
Dec(n) == IF n < 10 THEN <<48 + n>> ELSE Dec(n \div 10) \o <<48 + (n % 10)>>
Forms(n) == {Dec(n), <<48, 48>> \o Dec(n), <<45>> \o Dec(n), <<45, 48>> \o Dec(n), <<43>> \o Dec(n),
             Dec(n) \o <<97>>, <<45>> \o Dec(n) \o <<32>>, Dec(n) \o <<58>>, Dec(n) \o <<47>> \o Dec(n)}
SmallStrs == UNION {Forms(n) : n \in 0..SmallRange}

MCInputs == TokenStrs \cup SmallStrs \cup BoundaryStrs

BoolTokens == {<<116,114,117,101>>, <<102,97,108,115,101>>, <<116>>, <<101>>, <<84>>, <<32>>, <<116,114,117>>, <<102,97,108,115>>}
BoolStrs == {Concat(ts) : ts \in SeqsUpTo(BoolTokens, 3)}

Emit == LET ks == SetToSeq({<<t.name, x>> : t \in IntTypes, x \in MCInputs})
            bk == SetToSeq(BoolStrs)
        IN ndJsonSerialize(IOEnv.OUT,
              [q \in 1..Len(ks) |-> [m |-> "ParseInt", ty |-> ks[q][1], s |-> ks[q][2], exp |-> Ref(TypeOf(ks[q][1]), ks[q][2])]]
           \o [q \in 1..Len(bk) |-> [m |-> "ParseInt", ty |-> "bool", s |-> bk[q], exp |-> BoolRef(bk[q])]])
=============================================================================
