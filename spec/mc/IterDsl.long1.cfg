SPECIFICATION Spec
CONSTANTS
  Depth = 1
  LongInput = TRUE
  Wide = TRUE
INVARIANTS Agree EmitInv
CHECK_DEADLOCK FALSE
