SPECIFICATION Spec
CONSTANTS
  Inputs <- MCInputs
  AB_S = 7
  AB_N = 3
  U_S = 4
  U_N = 2
  WS_S = 4
INVARIANTS TypeOK Refines Utf8Safe
POSTCONDITION Emit
CHECK_DEADLOCK FALSE
