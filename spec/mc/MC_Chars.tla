------------------------------- MODULE MC_Chars -------------------------------
EXTENDS Chars, Json, IOUtils
CONSTANTS MaxChars, Wide

C0800   == <<224, 160, 128>>           \* U+0800, lowest 3-byte char (lead byte E0)
C07FF   == <<223, 191>>                \* U+07FF, highest 2-byte char
CFFFF   == <<239, 191, 191>>           \* U+FFFF
C10FFFF == <<244, 143, 191, 191>>      \* U+10FFFF
CD7FF   == <<237, 159, 191>>           \* U+D7FF (lead byte ED)
Alpha   == {CA, CNT, C0800, CCRAB, <<0>>} \cup (IF Wide THEN {C07FF, CFFFF, C10FFFF, CD7FF, CSQRT} ELSE {})
MCStrs  == StrsUpTo(Alpha, MaxChars) \cup (IF Wide THEN {c \o CA : c \in LeadChars} \cup {CA \o c : c \in LeadChars} ELSE {})

\* strings longer than 256 bytes made of few (wide) characters: the offsets of the last characters no longer fit a u8
LongStrs == {RepSeq(CCRAB, 64) \o CNT \o CA, RepSeq(C0800, 85) \o CA \o CNT}

\* complete sweeps at the specification level (every scalar value)
ASSUME \A c \in 0..1114111 :
          IsScalar(c) => /\ WellFormedChar(Encode(c)) /\ DecodeSeq(Encode(c)) = c /\ DecodeImpl(Encode(c)) = c

Item(i) == IF IsNone(i) THEN None ELSE Some(i.some)
Line == [m |-> "Chars", kind |-> kind, s |-> s, path |-> hist, fwd |-> fwd,
         st |-> [lo |-> lo, hi |-> hi], next |-> Item(DoNext.item), next_back |-> Item(DoNextBack.item)]
EmitInv == Serialize(ToJson(Line) \o "\n", IOEnv.OUT,
                     [format |-> "TXT", charset |-> "UTF-8", openOptions |-> <<"WRITE", "CREATE", "APPEND">>]).exitValue = 0
=============================================================================
