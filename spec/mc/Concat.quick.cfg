SPECIFICATION Spec
CONSTANTS
  Lists <- MCLists
  Seps <- MCSeps
  MaxPieces = 3
INVARIANTS WritesInBounds Refines Utf8Out
POSTCONDITION Emit
CHECK_DEADLOCK FALSE
