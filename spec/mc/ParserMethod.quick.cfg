SPECIFICATION Spec
CONSTANTS
  MaxChars = 2
INVARIANTS Agree EmitInv
POSTCONDITION Header
CHECK_DEADLOCK FALSE
