SPECIFICATION Spec
CONSTANTS
  Pairs <- MCPairsL
  AB_H = 4
  AB_N = 3
  U_H = 3
  RAW_H = 3
  RAW_N = 2
  U_N = 2
INVARIANTS TypeOK ReadsInBounds Refines ResultInside
POSTCONDITION Emit
CHECK_DEADLOCK FALSE
