---------------------------- MODULE MC_Destructure ----------------------------
EXTENDS Destructure, Json, IOUtils, SequencesExt
CONSTANTS MaxN

Shapes == {"braced", "tuple_struct", "tuple", "array"}
PatSeqs(len) == [1..len -> {"b", "u"}]
\* array patterns with one rest ("r" bound / "d" unbound) at any position
WithRest(len) == UNION {{[q \in 1..(len + 1) |-> IF q < pos THEN p[q] ELSE IF q = pos THEN rk ELSE p[q - 1]]
                          : p \in PatSeqs(len), rk \in {"r", "d"}} : pos \in 1..(len + 1)}
Mk(sh, n, pats, isref, isdrop) == [shape |-> sh, n |-> n, pats |-> pats, isref |-> isref, isdrop |-> isdrop]

\* valid programs
Valid == {Mk(sh, n, p, FALSE, FALSE) : sh \in Shapes, n \in 0..MaxN, p \in UNION {PatSeqs(k) : k \in 0..MaxN}}
Good  == {x \in Valid : Len(x.pats) = x.n}
           \cup UNION {{Mk("array", n, p, FALSE, FALSE) : p \in WithRest(k)} : n \in 0..MaxN, k \in 0..MaxN}
\* large arities (tuples and tuple structs support up to 16 fields): all bound, and `_` at alternating positions
Big == {Mk(sh, n, [q \in 1..n |-> IF k = 0 \/ q % 2 = k - 1 THEN "b" ELSE "u"], FALSE, FALSE)
          : sh \in {"tuple", "tuple_struct", "braced", "array"}, n \in {4, 8, 15, 16}, k \in 0..2}

\* misuse: wrong arity, reference, Drop type, `..` outside arrays, two rests
Bad   == {x \in Valid : Len(x.pats) \in {x.n - 1, x.n + 1}}
           \cup {Mk(x.shape, x.n, x.pats, TRUE, FALSE) : x \in {y \in Valid : Len(y.pats) = y.n}}
           \cup {Mk(x.shape, x.n, x.pats, FALSE, TRUE) : x \in {y \in Valid : Len(y.pats) = y.n /\ IsStructShape(y.shape)}}
           \cup UNION {{Mk(sh, n, p, FALSE, FALSE) : p \in WithRest(k)} : sh \in Shapes \ {"array"}, n \in 1..MaxN, k \in 0..1}
MCDescs == {x \in Good \cup Bad \cup Big : x.shape = "array" \/ Rests(x.pats) = {} \/ TRUE}

Line(x) == [m |-> "Destructure", shape |-> x.shape, n |-> x.n, pats |-> x.pats,
            isref |-> IF x.isref THEN 1 ELSE 0, isdrop |-> IF x.isdrop THEN 1 ELSE 0,
            verdict |-> Expected(x),
            bound |-> IF Misuse(x) THEN <<>> ELSE ExpBound(x),
            dropped |-> IF Misuse(x) THEN <<>> ELSE ExpDropped(x)]
Emit == LET ks == SetToSeq(MCDescs) IN
        TLCGet("stats").generated >= 0 /\ ndJsonSerialize(IOEnv.OUT, [q \in 1..Len(ks) |-> Line(ks[q])])

AllGuards == {"field", "type", "drop"}
NoDropGuard == {"field", "type"}
NoTypeGuard == {"field", "drop"}
NoFieldGuard == {"type", "drop"}
=============================================================================
