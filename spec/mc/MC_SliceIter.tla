----------------------------- MODULE MC_SliceIter -----------------------------
EXTENDS SliceIter, Json, IOUtils
Line == [m |-> "SliceIter", kind |-> kind, len |-> len, n |-> n, path |-> hist, fwd |-> fwd,
         st |-> [lo |-> lo, hi |-> hi, rem |-> <<rlo, rhi>>],
         next |-> DoNext.item, next_back |-> DoNextBack.item]
EmitInv == Serialize(ToJson(Line) \o "\n", IOEnv.OUT,
                     [format |-> "TXT", charset |-> "UTF-8", openOptions |-> <<"WRITE", "CREATE", "APPEND">>]).exitValue = 0
=============================================================================
