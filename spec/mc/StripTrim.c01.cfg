SPECIFICATION Spec
CONSTANTS
  Inputs <- MCInputs
  AB_S = 4
  AB_N = 2
  U_S = 3
  U_N = 2
  WS_S = 2
INVARIANTS TypeOK Refines Utf8Safe
POSTCONDITION Emit
CHECK_DEADLOCK FALSE
