----------------------------- MODULE MC_StrIndex -----------------------------
EXTENDS StrIndex, Json, IOUtils, SequencesExt
CONSTANTS MaxChars
MCStrs  == StrsUpTo({CA, CNT, CSQRT, CCRAB}, MaxChars)
MCExtra == {126, 127, 128, 129, 254, 255}
Vec(o, ss, x, y) == [m |-> "StrIndex", op |-> o, s |-> ss, a |-> x, b |-> y, exp |-> Ref(o, ss, x, y)]
Vectors == {Vec(o, ss, x, 0) : o \in Ops1, ss \in MCStrs, x \in 0..18 \cup MCExtra}
Vectors2 == UNION {{Vec(o, ss, x, y) : o \in Ops2, x \in IdxOf(ss), y \in IdxOf(ss)} : ss \in MCStrs}
Emit == ndJsonSerialize(IOEnv.OUT, SetToSeq({v \in Vectors : v.a \in IdxOf(v.s)} \cup Vectors2))
=============================================================================
