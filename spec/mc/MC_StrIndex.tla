----------------------------- MODULE MC_StrIndex -----------------------------
EXTENDS StrIndex, Json, IOUtils, SequencesExt
CONSTANTS MaxChars
MCStrs  == StrsUpTo({CA, CNT, CSQRT, CCRAB}, MaxChars) \cup StrsUpTo(EdgeChars, 2)
             \cup {CA \o c \o <<98>> : c \in LeadChars} \cup LeadChars
ASSUME {c[1] : c \in LeadChars} = 194..244        \* every byte that can start a multi-byte character
MCExtra == {126, 127, 128, 129, 254, 255}
Vec(k) == [m |-> "StrIndex", op |-> k[1], s |-> k[2], a |-> k[3], b |-> k[4], exp |-> Ref(k[1], k[2], k[3], k[4])]
\* keys are homogeneous tuples (cheap to normalise); the heterogeneous records are built as a sequence
Keys == UNION {{<<o, ss, x, 0>> : o \in Ops1, x \in IdxOf(ss)} : ss \in MCStrs}
          \cup UNION {{<<o, ss, x, y>> : o \in Ops2, x \in IdxOf(ss), y \in IdxOf(ss)} : ss \in MCStrs}
Emit == LET ks == SetToSeq(Keys) IN ndJsonSerialize(IOEnv.OUT, [i \in 1..Len(ks) |-> Vec(ks[i])])
=============================================================================
