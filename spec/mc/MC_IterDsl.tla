------------------------------ MODULE MC_IterDsl ------------------------------
(* Enumerates every chain of the adapter grammar up to a depth bound with every consumer, keeps those in the
   comparison domain (accepted by std's trait bounds and by konst), checks loop machine = Std (or the known
   F8 shape) on every input, and emits one program descriptor per (chain, consumer). *)
EXTENDS IterDsl, Json, IOUtils, SequencesExt
CONSTANTS Depth,
          LongInput,    \* TRUE: one input of 260 items (a position / count kept in a u8 wraps at 256) instead of the six short ones
          Wide      \* TRUE: also the boundary arguments take(0) / take(5) / skip(0) / skip(5) and nth(0) / nth(4)

WideAdapters == IF Wide THEN {Ad("take", 0), Ad("take", 5), Ad("skip", 0), Ad("skip", 5), Ad("map_s", 0)} ELSE {}
Adapters == WideAdapters \cup {Ad("enumerate", 0), Ad("filter", 0), Ad("filter_map", 0), Ad("flat_map", 0), Ad("flatten", 0), Ad("map", 1), Ad("rev", 0),
             Ad("skip", 1), Ad("skip_while", 0), Ad("take", 2), Ad("take_while", 0), Ad("zip", 0)}
Consumers == {"for_each", "collect", "all", "any", "count", "find", "find_map", "rfind", "fold", "rfold", "next",
              "nth", "position", "rposition"} \cup (IF Wide THEN {"nth0", "nth4"} ELSE {})
Inputs == IF LongInput THEN << [q \in 1..260 |-> (q % 5) + 1] >>
          ELSE << <<>>, <<1>>, <<1, 2, 3, 4>>, <<3, 1, 2>>, <<2, 4, 6, 8, 5>>, <<2, 2, 2>> >>
NthArg == 1

Chains == UNION {[1..k -> Adapters] : k \in 0..Depth}

VARIABLES chain, cons
Init == chain \in Chains /\ cons \in Consumers /\ InDomain(chain, cons)
Next == UNCHANGED <<chain, cons>>
Spec == Init /\ [][Next]_<<chain, cons>>

ExpOf == [q \in 1..Len(Inputs) |-> Std(chain, cons, NthArg, Inputs[q])]
ModOf == [q \in 1..Len(Inputs) |-> Model(chain, cons, NthArg, Inputs[q])]

\* the loop machine computes what std computes, except on the known shape
Agree == KnownShape(chain, cons) \/ ExpOf = ModOf

Line == [m |-> "IterDsl", ins |-> (IF LongInput THEN Inputs ELSE <<>>), chain |-> chain, cons |-> cons, n |-> NthArg, exp |-> ExpOf, model |-> ModOf,
         srcs |-> [q \in 1..Len(Inputs) |-> SetToSeq({sk \in SourceKinds : Denotes(sk, Inputs[q])})],
         known |-> IF KnownShape(chain, cons) THEN 1 ELSE 0, differs |-> IF ExpOf = ModOf THEN 0 ELSE 1]
EmitInv == Serialize(ToJson(Line) \o "\n", IOEnv.OUT,
                     [format |-> "TXT", charset |-> "UTF-8", openOptions |-> <<"WRITE", "CREATE", "APPEND">>]).exitValue = 0
=============================================================================
