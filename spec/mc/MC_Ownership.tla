----------------------------- MODULE MC_Ownership -----------------------------
EXTENDS Ownership, Json, IOUtils
Dropped == {id \in DOMAIN owner : owner[id] = "dropped"}
ObjObs(nm) == [kind |-> objs[nm].kind, win |-> Window(objs[nm])]
Line == [m |-> "Ownership", n |-> N, start |-> scen,
         path |-> hist, a |-> ObjObs("a"), b |-> ObjObs("b"), handed |-> handed,
         dropped |-> [id \in 1..(nextid - 1) |-> IF id \in Dropped THEN 1 ELSE 0], created |-> nextid - 1]
EmitInv == Serialize(ToJson(Line) \o "\n", IOEnv.OUT,
                     [format |-> "TXT", charset |-> "UTF-8", openOptions |-> <<"WRITE", "CREATE", "APPEND">>]).exitValue = 0
=============================================================================
