SPECIFICATION Spec
CONSTANTS
  Hays <- MCHays
  Needles <- MCNeedles
  AB_H = 7
  AB_N = 4
  U_H = 4
  RAW_H = 4
  RAW_N = 2
  U_N = 2
INVARIANTS TypeOK ReadsInBounds Refines ResultInside
POSTCONDITION Emit
CHECK_DEADLOCK FALSE
