SPECIFICATION Spec
CONSTANTS
  Pairs <- MCPairsL
  AB_H = 8
  AB_N = 5
  U_H = 5
  RAW_H = 4
  RAW_N = 2
  U_N = 2
INVARIANTS TypeOK ReadsInBounds Refines ResultInside
POSTCONDITION Emit
CHECK_DEADLOCK FALSE
