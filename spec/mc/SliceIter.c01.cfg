SPECIFICATION Spec
CONSTANTS
  MaxLen = 4
VIEW View
INVARIANTS TypeOK LiveInv Refines RemainderInv ItemsInside EmitInv
CHECK_DEADLOCK FALSE
