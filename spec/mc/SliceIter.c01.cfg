SPECIFICATION Spec
CONSTANTS
  MaxLen = 4
VIEW View
INVARIANTS TypeOK LiveInv Refines RemainderInv ItemsInside ArithInv EmitInv
CHECK_DEADLOCK FALSE
