------------------------------- MODULE MC_Concat -------------------------------
EXTENDS Concat, Json, IOUtils, SequencesExt
CONSTANTS MaxPieces
StrPieces  == {<<>>, CA, CNT \o CSQRT, CCRAB}
CharPieces == {CA, CNT, CSQRT, CCRAB}
MCLists == SeqsUpTo(StrPieces, MaxPieces) \cup SeqsUpTo(CharPieces, MaxPieces)
MCSeps  == {<<>>, <<44>>, CSQRT \o CSQRT, CNT}
IsCharList(ps) == \A q \in 1..Len(ps) : ps[q] \in CharPieces

\* program descriptors: which macro, element kind, separator kind
Desc(mac, ek, sk, sp, ps) == [m |-> "Concat", mac |-> mac, ek |-> ek, sk |-> sk, sep |-> sp, pieces |-> ps,
                               exp |-> Ref(IF mac = "str_join" THEN "join" ELSE "concat", sp, ps)]
Emit == LET sl == SetToSeq(SeqsUpTo(StrPieces, MaxPieces))
            cl == SetToSeq(SeqsUpTo(CharPieces, MaxPieces))
            jl == SetToSeq(SeqsUpTo(StrPieces, MaxPieces) \X MCSeps)
        IN ndJsonSerialize(IOEnv.OUT,
              [q \in 1..Len(sl) |-> Desc("str_concat", "str", "", <<>>, sl[q])]
           \o [q \in 1..Len(cl) |-> Desc("str_concat", "char", "", <<>>, cl[q])]
           \o [q \in 1..Len(sl) |-> Desc("from_iter", "str", "", <<>>, sl[q])]
           \o [q \in 1..Len(cl) |-> Desc("from_iter", "char", "", <<>>, cl[q])]
           \o [q \in 1..Len(sl) |-> Desc("slice_concat", "bytes", "", <<>>, sl[q])]
           \o [q \in 1..Len(jl) |-> Desc("str_join", "str", "str", jl[q][2], jl[q][1])]
           \o [q \in 1..Len(jl) |-> Desc("str_join", "str", "char", jl[q][2], jl[q][1])])
=============================================================================
