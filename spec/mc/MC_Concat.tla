------------------------------- MODULE MC_Concat -------------------------------
EXTENDS Concat, Json, IOUtils, SequencesExt
CONSTANTS MaxPieces
\* piece lengths 0, 1, 2, 2, 4, 5 bytes (so that byte totals and piece counts can coincide in several ways)
StrPieces  == {<<>>, CA, CNT, <<97, 98>>, CNT \o CSQRT, CCRAB}
CharPieces == {CA, CNT, CSQRT, CCRAB}
\* second family: pieces and separators of 7..17 bytes (around the 8- and 16-byte block sizes), with a multi-byte
\* character at the start, at the end, or straddling byte 8
Run(n)     == [i \in 1..n |-> 97 + (i % 26)]
LongPieces == {Run(7), Run(8), Run(9), Run(7) \o CNT, CNT \o Run(7), Run(9) \o CNT, Run(16), Run(17), <<>>, CA}
LongSeps   == {<<44>>, Run(9), Run(7) \o CNT, Run(16)}
\* third family: totals and pieces beyond 256 bytes (a byte count kept in a u8 wraps), and 40 one-byte pieces
HugePieces == {Run(255), Run(256), Run(257), Run(255) \o CNT}
HugeLists  == UNION {{<<h>>, <<h, CA>>, <<CNT, h>>, <<h, h>>} : h \in HugePieces} \cup {[q \in 1..40 |-> CA], [q \in 1..130 |-> <<97, 98>>]}
LongLists  == SeqsUpTo(LongPieces, 2) \cup HugeLists
MCLists == SeqsUpTo(StrPieces, MaxPieces) \cup SeqsUpTo(CharPieces, MaxPieces) \cup LongLists
MCSeps  == {<<>>, <<44>>, CSQRT \o CSQRT, CNT} \cup LongSeps
IsCharList(ps) == \A q \in 1..Len(ps) : ps[q] \in CharPieces

\* program descriptors: which macro, element kind, separator kind
Desc(mac, ek, sk, sp, ps) == [m |-> "Concat", mac |-> mac, ek |-> ek, sk |-> sk, sep |-> sp, pieces |-> ps,
                               exp |-> Ref(IF mac = "str_join" THEN "join" ELSE "concat", sp, ps)]
Emit == LET sl == SetToSeq(SeqsUpTo(StrPieces, MaxPieces))
            cl == SetToSeq(SeqsUpTo(CharPieces, MaxPieces))
            jl == SetToSeq(SeqsUpTo(StrPieces, MaxPieces) \X {<<>>, <<44>>, CSQRT \o CSQRT, CNT})
            ll == SetToSeq(LongLists)
            lj == SetToSeq(LongLists \X LongSeps)
        IN ndJsonSerialize(IOEnv.OUT,
              [q \in 1..Len(sl) |-> Desc("str_concat", "str", "", <<>>, sl[q])]
           \o [q \in 1..Len(cl) |-> Desc("str_concat", "char", "", <<>>, cl[q])]
           \o [q \in 1..Len(sl) |-> Desc("from_iter", "str", "", <<>>, sl[q])]
           \o [q \in 1..Len(cl) |-> Desc("from_iter", "char", "", <<>>, cl[q])]
           \o [q \in 1..Len(sl) |-> Desc("slice_concat", "bytes", "", <<>>, sl[q])]
           \o [q \in 1..Len(jl) |-> Desc("str_join", "str", "str", jl[q][2], jl[q][1])]
           \o [q \in 1..Len(jl) |-> Desc("str_join", "str", "char", jl[q][2], jl[q][1])]
           \o [q \in 1..Len(ll) |-> Desc("str_concat", "str", "", <<>>, ll[q])]
           \o [q \in 1..Len(ll) |-> Desc("from_iter", "str", "", <<>>, ll[q])]
           \o [q \in 1..Len(ll) |-> Desc("slice_concat", "bytes", "", <<>>, ll[q])]
           \o [q \in 1..Len(lj) |-> Desc("str_join", "str", "str", lj[q][2], lj[q][1])])
=============================================================================
