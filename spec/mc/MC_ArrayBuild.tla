----------------------------- MODULE MC_ArrayBuild -----------------------------
EXTENDS ArrayBuild, Json, IOUtils
Line == [m |-> "ArrayBuild", form |-> form, n |-> n, exit |-> exit, pos |-> pos, ending |-> Ending]
EmitInv == Ending # "running" =>
             Serialize(ToJson(Line) \o "\n", IOEnv.OUT,
                       [format |-> "TXT", charset |-> "UTF-8", openOptions |-> <<"WRITE", "CREATE", "APPEND">>]).exitValue = 0
=============================================================================
