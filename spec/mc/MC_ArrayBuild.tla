----------------------------- MODULE MC_ArrayBuild -----------------------------
EXTENDS ArrayBuild, Json, IOUtils
Line == [m |-> "ArrayBuild", form |-> form, n |-> n, exit |-> exit, pos |-> pos, ending |-> Ending,
         \* C15: the drop ledger of the by-value forms at this (final) state
         pc |-> pc, pushed |-> pushed, din |-> led.din, dout |-> led.dout]
EmitInv == Ending # "running" =>
             Serialize(ToJson(Line) \o "\n", IOEnv.OUT,
                       [format |-> "TXT", charset |-> "UTF-8", openOptions |-> <<"WRITE", "CREATE", "APPEND">>]).exitValue = 0
=============================================================================
