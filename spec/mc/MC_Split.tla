------------------------------- MODULE MC_Split -------------------------------
EXTENDS Split, Json, IOUtils
CONSTANTS MaxChars
MCStrs   == StrsUpTo({CA, <<44>>, CNT}, MaxChars)
MCDelims == {<<44>>, CA, <<44, 44>>, <<97, 44>>, CNT, <<>>, <<97, 97>>, <<97, 97, 44>>, <<97, 44, 97>>}
\* second family: characters at the ends of every encoded width (lead bytes 7F C2 DF E0 ED EE EF F0 F4),
\* split at every character (empty delimiter) or at one of them
EdgeStrs   == StrsUpTo(EdgeChars, 2) \cup {Concat(<<x, CA, y>>) : x, y \in EdgeChars}
EdgeDelims == {<<>>, Encode(65535), Encode(128)}
\* third family: delimiters of 5, 12, 13 and 255..257 bytes (lengths kept in narrow integers wrap at 256; searches switch
\* algorithm for longer needles), in a string that also holds a near miss of the delimiter differing in one byte
LongDelim(n) == RepSeq(<<97, 98>>, n \div 2) \o (IF n % 2 = 1 THEN <<97>> ELSE <<>>)
Flip(dd, j)  == [dd EXCEPT ![j] = 99]
LongPairs == UNION {UNION {{ <<<<120>> \o Flip(LongDelim(n), j) \o <<121>> \o LongDelim(n) \o <<122>>, LongDelim(n)>>,
                      <<<<120>> \o LongDelim(n) \o <<121>> \o Flip(LongDelim(n), j) \o <<122>>, LongDelim(n)>>,
                      <<LongDelim(n) \o <<121>> \o LongDelim(n), LongDelim(n)>> }
                    : j \in {1, 2, n - 3, n - 1, n} } : n \in {5, 12, 13, 255, 256, 257}}
MCPairs  == (MCStrs \X MCDelims) \cup (EdgeStrs \X EdgeDelims) \cup LongPairs
Line == [m |-> "Split", kind |-> kind, s |-> s, d |-> d, path |-> hist, fwd |-> fwd,
         st |-> [lo |-> lo, hi |-> hi, fin |-> IF phase = "Finished" THEN 1 ELSE 0],
         cn |-> IF CanNext THEN 1 ELSE 0, cb |-> IF CanNextBack THEN 1 ELSE 0,
         next |-> DoNext.item, next_back |-> DoNextBack.item]
EmitInv == Serialize(ToJson(Line) \o "\n", IOEnv.OUT,
                     [format |-> "TXT", charset |-> "UTF-8", openOptions |-> <<"WRITE", "CREATE", "APPEND">>]).exitValue = 0
=============================================================================
