------------------------------- MODULE MC_Split -------------------------------
EXTENDS Split, Json, IOUtils
CONSTANTS MaxChars
MCStrs   == StrsUpTo({CA, <<44>>, CNT}, MaxChars)
MCDelims == {<<44>>, CA, <<44, 44>>, <<97, 44>>, CNT, <<>>, <<97, 97>>, <<97, 97, 44>>, <<97, 44, 97>>}
\* second family: characters at the ends of every encoded width (lead bytes 7F C2 DF E0 ED EE EF F0 F4),
\* split at every character (empty delimiter) or at one of them
EdgeStrs   == StrsUpTo(EdgeChars, 2) \cup {Concat(<<x, CA, y>>) : x, y \in EdgeChars}
EdgeDelims == {<<>>, Encode(65535), Encode(128)}
MCPairs  == (MCStrs \X MCDelims) \cup (EdgeStrs \X EdgeDelims)
Line == [m |-> "Split", kind |-> kind, s |-> s, d |-> d, path |-> hist, fwd |-> fwd,
         st |-> [lo |-> lo, hi |-> hi, fin |-> IF phase = "Finished" THEN 1 ELSE 0],
         cn |-> IF CanNext THEN 1 ELSE 0, cb |-> IF CanNextBack THEN 1 ELSE 0,
         next |-> DoNext.item, next_back |-> DoNextBack.item]
EmitInv == Serialize(ToJson(Line) \o "\n", IOEnv.OUT,
                     [format |-> "TXT", charset |-> "UTF-8", openOptions |-> <<"WRITE", "CREATE", "APPEND">>]).exitValue = 0
=============================================================================
