------------------------------- MODULE MC_Split -------------------------------
EXTENDS Split, Json, IOUtils
CONSTANTS MaxChars
MCStrs   == StrsUpTo({CA, <<44>>, CNT}, MaxChars)
MCDelims == {<<44>>, CA, <<44, 44>>, <<97, 44>>, CNT, <<>>, <<97, 97>>}
Line == [m |-> "Split", kind |-> kind, s |-> s, d |-> d, path |-> hist, fwd |-> fwd,
         st |-> [lo |-> lo, hi |-> hi, fin |-> IF phase = "Finished" THEN 1 ELSE 0],
         cn |-> IF CanNext THEN 1 ELSE 0, cb |-> IF CanNextBack THEN 1 ELSE 0,
         next |-> DoNext.item, next_back |-> DoNextBack.item]
EmitInv == Serialize(ToJson(Line) \o "\n", IOEnv.OUT,
                     [format |-> "TXT", charset |-> "UTF-8", openOptions |-> <<"WRITE", "CREATE", "APPEND">>]).exitValue = 0
=============================================================================
