---------------------------------- MODULE MC_Mem ----------------------------------
EXTENDS Mem, Json, IOUtils
Line == [m |-> "Mem", n |-> N, path |-> hist, slots |-> slots, md |-> md, lost |-> [v \in 1..(nextv - 1) |-> IF v \in lost THEN 1 ELSE 0],
         assumed |-> IF pc = "assumed" THEN 1 ELSE 0]
EmitInv == Serialize(ToJson(Line) \o "\n", IOEnv.OUT,
                     [format |-> "TXT", charset |-> "UTF-8", openOptions |-> <<"WRITE", "CREATE", "APPEND">>]).exitValue = 0
=============================================================================
