------------------------------- MODULE MC_OptRes -------------------------------
EXTENDS OptRes, Json, IOUtils, SequencesExt
CONSTANTS MaxRebind
ASSUME MinMaxOK
RebindPats == UNION {[1..k -> RebindKinds] : k \in 1..MaxRebind}
Emit == LET os == SetToSeq(OptMacros \X OptVals)
            rs == SetToSeq(ResMacros \X ResVals)
            ns == SetToSeq(NestedOpt)
            ps == SetToSeq(RebindPats)
            mm == SetToSeq(MMKeys \X MMKeys)
            od == SetToSeq(UNION {[1..k -> OrderKinds] : k \in 2..3})
        IN TLCGet("stats").generated >= 0 /\ ndJsonSerialize(IOEnv.OUT,
              [q \in 1..Len(os) |-> [m |-> "OptRes", fam |-> "option", mac |-> os[q][1], arg |-> os[q][2], exp |-> StdOpt(os[q][1], os[q][2]), eager |-> EagerArg("option", os[q][1])]]
           \o [q \in 1..Len(rs) |-> [m |-> "OptRes", fam |-> "result", mac |-> rs[q][1], arg |-> rs[q][2], exp |-> StdRes(rs[q][1], rs[q][2]), eager |-> EagerArg("result", rs[q][1])]]
           \o [q \in 1..Len(ns) |-> [m |-> "OptRes", fam |-> "option", mac |-> "flatten", arg |-> ns[q], exp |-> Out(StdFlatten(ns[q]), FALSE)]]
           \o [q \in 1..Len(ps) |-> [m |-> "OptRes", fam |-> "rebind", mac |-> "rebind", arg |-> ps[q], exp |-> Out(RebindAssign(ps[q]), FALSE)]]
           \o [q \in 1..Len(od) |-> [m |-> "OptRes", fam |-> "rebind_order", mac |-> "rebind", arg |-> od[q],
                                     exp |-> Out(LET st == RebindOrd(od[q]) IN <<st.p, st.arr[0], st.arr[1], st.arr[2], st.arr[3]>>, FALSE)]]
           \o [q \in 1..Len(mm) |-> [m |-> "OptRes", fam |-> "minmax", mac |-> "minmax", arg |-> <<mm[q][1], mm[q][2]>>,
                                     exp |-> Out(<<MinRef(<<mm[q][1], "L">>, <<mm[q][2], "R">>)[2], MaxRef(<<mm[q][1], "L">>, <<mm[q][2], "R">>)[2]>>, FALSE)]])
=============================================================================
