SPECIFICATION Spec
CONSTANTS
  MinV <- I8Min
  MaxV = 127
  IsChar = FALSE
  Starts <- AllVals
  Ends <- AllVals
  TypeName = "i8"
  SeqMax = 12
  MaxDepth = 300
VIEW View
CONSTRAINT DepthBound
INVARIANTS TypeOK Refines EmitInv
CHECK_DEADLOCK FALSE
