SPECIFICATION Spec
CONSTANTS
  Inputs <- MCInputs
  MaxLen = 5
INVARIANTS Refines UncheckedPre WalkInBounds WalkResult
POSTCONDITION Emit
CHECK_DEADLOCK FALSE
