SPECIFICATION Spec
CONSTANTS
  MaxChars = 3
INVARIANTS Agree EmitInv
POSTCONDITION Header
CHECK_DEADLOCK FALSE
