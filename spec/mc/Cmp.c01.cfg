SPECIFICATION Spec
CONSTANTS
  Flat <- MCFlat
  Nested <- MCNested
  FlatLen = 2
  NestOuter = 2
  NestInner = 2
  Scalars = 6
INVARIANTS ReadsInBounds Refines
POSTCONDITION Emit
CHECK_DEADLOCK FALSE
