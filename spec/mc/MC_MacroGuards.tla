---------------------------- MODULE MC_MacroGuards ----------------------------
EXTENDS MacroGuards, Json, IOUtils, SequencesExt
CONSTANTS Adapters2,    \* adapters of the chains of length 0..2
          Adapters3,    \* adapters of the chains of length 3 (empty: none)
          Consumers
ASSUME Adapters2 \cup Adapters3 \subseteq KnownAdapters /\ Consumers \subseteq KnownConsumers
Adapt2 == UNION {[1..k -> Adapters2] : k \in 0..2} \cup (IF Adapters3 = {} THEN {} ELSE [1..3 -> Adapters3])
ConsSet == {<<>>} \cup {<<c>> : c \in Consumers}
Chains == {a \o c : a \in Adapt2, c \in ConsSet}
DslDescs == {DslDesc(ms, 0, 0) : ms \in Chains}
              \cup UNION {{DslDesc(ms, q, 0) : q \in {p \in 1..Len(ms) : ms[p] \in ArglessMethods}} : ms \in Chains}
              \cup UNION {{DslDesc(ms, 0, q) : q \in 1..Len(ms)} : ms \in {x \in Chains : Len(x) <= 2}}
PmDescs == {PmDesc(f, p, d) : f \in PmForms, p \in LiteralPats \cup NonLiteralPats, d \in BOOLEAN}
VARIABLE x
Init == x = 0
Next == UNCHANGED x
Spec == Init /\ [][Next]_x
Emit == LET ds == SetToSeq(DslDescs) ps == SetToSeq(PmDescs) IN
        TLCGet("stats").generated >= 0 /\ ndJsonSerialize(IOEnv.OUT,
              [q \in 1..Len(ds) |-> [m |-> "MacroGuards", kind |-> "dsl", methods |-> ds[q].methods, spurious |-> ds[q].spurious,
                                     unknown |-> ds[q].unknown, verdict |-> IF DslRejected(ds[q]) THEN "Rejected" ELSE "Accepted"]]
           \o [q \in 1..Len(ps) |-> [m |-> "MacroGuards", kind |-> "parser_method", form |-> ps[q].form, pat |-> ps[q].pat,
                                     dflt |-> IF ps[q].dflt THEN 1 ELSE 0, verdict |-> IF PmRejected(ps[q]) THEN "Rejected" ELSE "Accepted"]])
=============================================================================
