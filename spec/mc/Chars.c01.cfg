SPECIFICATION Spec
CONSTANTS
  Strs <- MCStrs
  MaxChars = 2
  Wide = FALSE
VIEW View
INVARIANTS WindowInv Refines ScalarInv EmitInv
CHECK_DEADLOCK FALSE
