-------------------------------- MODULE MC_CStr --------------------------------
EXTENDS CStr, Json, IOUtils, SequencesExt
CONSTANTS MaxLen
MCInputs == SeqsUpTo({0, 97, 255, 195, 177}, MaxLen)
Emit == LET ks == SetToSeq(MCInputs) IN
        TLCGet("stats").generated >= 0 /\ ndJsonSerialize(IOEnv.OUT, [q \in 1..Len(ks) |->
            [m |-> "CStr", b |-> ks[q], until |-> RefUntil(ks[q]), with |-> RefWith(ks[q])]])
=============================================================================
