-------------------------------- MODULE MC_CStr --------------------------------
EXTENDS CStr, Json, IOUtils, SequencesExt
CONSTANTS MaxLen
MCInputs == SeqsUpTo({0, 97, 255, 195, 177}, MaxLen)
\* from_utf8 / to_str with the complete error (valid_up_to, error_len): byte strings over lead bytes of every width,
\* the restricted second bytes and a nul
Utf8Bytes  == {0, 97, 128, 159, 160, 191, 195, 224, 226, 237, 240, 244, 245}
Utf8Inputs == SeqsUpTo(Utf8Bytes, 3) \cup {<<a, b, c, d>> : a \in {240, 244, 226}, b \in {128, 143, 144, 191}, c \in {128, 97, 0}, d \in {191, 0}}
ASSUME \A s \in Utf8Inputs : Utf8Check(s).ok <=> ValidUtf8(s)
Emit == LET ks == SetToSeq(MCInputs) IN
        TLCGet("stats").generated >= 0 /\ ndJsonSerialize(IOEnv.OUT, [q \in 1..Len(ks) |->
            [m |-> "CStr", b |-> ks[q], until |-> RefUntil(ks[q]), with |-> RefWith(ks[q])]])
        /\ LET us == SetToSeq(Utf8Inputs) IN
           ndJsonSerialize(IOEnv.OUT \o ".utf8", [q \in 1..Len(us) |-> [m |-> "Utf8Check", b |-> us[q], exp |-> Utf8Check(us[q])]])
=============================================================================
