SPECIFICATION Spec
CONSTANTS
  Origs <- MCOrigs
  Bases = {0, 10}
  Pats <- WidePats
  Delims <- WideDelims
  Letters <- WideLetters
  SkipNs = {0, 1, 2, 3, 4, 200}
  MaxChars = 3
  WithMinus = FALSE
VIEW View
INVARIANTS OffsetInv WindowInv ErrorInv SplitProtocol Utf8Inv EmitInv
CHECK_DEADLOCK FALSE
