SPECIFICATION Spec
CONSTANTS
  Pairs <- MCPairs
  MaxChars = 5
VIEW View
INVARIANTS WindowInv Refines RemainderInv InitialSeqs EndsAgree EmitInv
CHECK_DEADLOCK FALSE
