SPECIFICATION Spec
CONSTANTS
  Inputs <- MCInputs
  MaxLen = 7
INVARIANTS Refines UncheckedPre WalkInBounds WalkResult
POSTCONDITION Emit
CHECK_DEADLOCK FALSE
