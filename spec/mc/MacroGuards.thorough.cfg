SPECIFICATION Spec
CONSTANTS
  Adapters2 = {"copied", "enumerate", "filter", "filter_map", "flat_map", "flatten", "map", "rev", "skip", "skip_while", "take", "take_while", "zip"}
  Adapters3 = {"enumerate", "map", "rev", "skip", "take", "zip"}
  Consumers = {"all", "any", "count", "find", "find_map", "fold", "for_each", "next", "nth", "position", "rfind", "rfold", "rposition"}
POSTCONDITION Emit
CHECK_DEADLOCK FALSE
