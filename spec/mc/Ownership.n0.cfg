SPECIFICATION Spec
CONSTANTS
  N = 0
  MaxClones = 2
VIEW View
INVARIANTS NoErr OwnerConsistent NoLeak HandedOnce EmitInv
CHECK_DEADLOCK FALSE
