SPECIFICATION Spec
CONSTANTS
  Inputs <- MCInputs
  MaxTokens = 3
  SmallRange = 300
INVARIANTS Refines ReadsInBounds
POSTCONDITION Emit
CHECK_DEADLOCK FALSE
