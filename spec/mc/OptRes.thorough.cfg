SPECIFICATION Spec
CONSTANTS
  MaxRebind = 6
INVARIANTS Refines
POSTCONDITION Emit
CHECK_DEADLOCK FALSE
