---------------------------- MODULE MC_ParserMethod ----------------------------
EXTENDS ParserMethod, Json, IOUtils, SequencesExt
CONSTANTS MaxChars
Forms == {"strip_prefix", "strip_suffix", "find_skip", "rfind_skip", "trim_start_matches", "trim_end_matches"}
\* input alphabet: a b n-tilde A newline backslash NBSP crab e-acute quote n tab
Alpha == {<<97>>, <<98>>, CNT, <<65>>, <<10>>, <<92>>, <<194, 160>>, CCRAB, <<195, 169>>, <<34>>, <<110>>, <<12>>}
InSeq == SetToSeq(StrsUpTo(Alpha, MaxChars))
AltBytes(k) == [b \in 1..Len(AltSets[k]) |-> [a \in 1..Len(AltSets[k][b]) |-> Bytes(AltSets[k][b][a])]]

\* TLC computes and checks initial states on one thread; the (form, alternative list) cases are therefore reached
\* in two steps (a start state, 16 dispatch states, then the cases) so that the workers share them
VARIABLES form, k
Cases    == SetToSeq(Forms \X (1..Len(AltSets)))
Init == form = "start" /\ k = 0
Next == \/ form = "start" /\ form' = "dispatch" /\ k' \in 1..16
        \/ form = "dispatch" /\ \E q \in 1..Len(Cases) : q % 16 = k % 16 /\ form' = Cases[q][1] /\ k' = Cases[q][2]
Spec == Init /\ [][Next]_<<form, k>>
IsCase == form \in Forms

\* the generated code computes what the property says, for every input
\* (the literal decoding AltBytes(k) is bound once per state: TLC caches a LET value, not an operator application)
Agree == IsCase => LET ab == AltBytes(k) IN \A q \in 1..Len(InSeq) : FormM(form, ab, InSeq[q]) = FormR(form, ab, InSeq[q])

Line == [m |-> "ParserMethod", form |-> form, k |-> k,
         exp |-> LET ab == AltBytes(k) IN [q \in 1..Len(InSeq) |-> LET r == FormR(form, ab, InSeq[q]) IN <<r.b, r.lo, r.hi>>]]
EmitInv == IsCase => Serialize(ToJson(Line) \o "\n", IOEnv.OUT,
                     [format |-> "TXT", charset |-> "UTF-8", openOptions |-> <<"WRITE", "CREATE", "APPEND">>]).exitValue = 0
\* header: the inputs (in order) and the decoded bytes of every literal
Header == ndJsonSerialize(IOEnv.HDR, <<[inputs |-> InSeq, lits |-> [l \in {x.id : x \in Lits} |-> Bytes(l)]]>>)
=============================================================================
