SPECIFICATION Spec
CONSTANTS
  Depth = 2
  LongInput = TRUE
  Wide = FALSE
INVARIANTS Agree EmitInv
CHECK_DEADLOCK FALSE
