SPECIFICATION Spec
CONSTANTS
  Depth = 3
INVARIANTS Agree EmitInv
CHECK_DEADLOCK FALSE
