SPECIFICATION Spec
CONSTANTS
  Depth = 3
  Wide = FALSE
INVARIANTS Agree EmitInv
CHECK_DEADLOCK FALSE
