SPECIFICATION Spec
CONSTANTS
  Depth = 3
  LongInput = FALSE
  Wide = FALSE
INVARIANTS Agree EmitInv
CHECK_DEADLOCK FALSE
