SPECIFICATION Spec
POSTCONDITION Emit
CHECK_DEADLOCK FALSE
