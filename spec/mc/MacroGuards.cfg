SPECIFICATION Spec
CONSTANTS
  Adapters2 = {"copied", "enumerate", "flatten", "map", "rev", "skip"}
  Adapters3 = {}
  Consumers = {"count", "next", "rfind", "rfold", "rposition", "find"}
POSTCONDITION Emit
CHECK_DEADLOCK FALSE
