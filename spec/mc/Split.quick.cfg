SPECIFICATION Spec
CONSTANTS
  Pairs <- MCPairs
  MaxChars = 4
VIEW View
INVARIANTS WindowInv Refines RemainderInv InitialSeqs EndsAgree EmitInv
CHECK_DEADLOCK FALSE
