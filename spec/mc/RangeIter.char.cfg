SPECIFICATION Spec
CONSTANTS
  MinV = 0
  MaxV = 1114111
  IsChar = TRUE
  Starts <- CharNear
  Ends <- CharNear
  TypeName = "char"
  SeqMax = 12
  MaxDepth = 14
VIEW View
CONSTRAINT DepthBound
INVARIANTS TypeOK Refines EmitInv
CHECK_DEADLOCK FALSE
