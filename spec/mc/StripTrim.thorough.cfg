SPECIFICATION Spec
CONSTANTS
  Inputs <- MCInputs
  AB_S = 8
  AB_N = 4
  U_S = 5
  U_N = 2
  WS_S = 5
INVARIANTS TypeOK Refines Utf8Safe
POSTCONDITION Emit
CHECK_DEADLOCK FALSE
