----------------------------- MODULE MC_RangeIter -----------------------------
EXTENDS RangeIter, Json, IOUtils, SequencesExt
CONSTANTS TypeName, SeqMax

AllVals   == MinV..MaxV
I8Min     == -128
\* char: code points within 6 of the anchors 0, 0xD7FF | 0xE000, 0x10FFFF
CharNear  == (0..6) \cup (55289..55295) \cup (57344..57350) \cup (1114105..1114111)

\* expected complete sequence (ascending) when at most SeqMax values remain
Small == ~Remaining.empty /\ Remaining.hi - Remaining.lo <= 2048 + SeqMax
RemSet == IF Small THEN {v \in Remaining.lo..Remaining.hi : InDom(v)} ELSE {}
IsSmall == Remaining.empty \/ (Small /\ Cardinality(RemSet) <= SeqMax)
\* start.. : the first SeqMax values (as long as they stay below MaxV)
RECURSIVE Prefix(_, _)
Prefix(v, k) == IF k = 0 \/ v >= MaxV THEN <<>> ELSE <<v>> \o Prefix(Succ(v), k - 1)
Line == [m |-> "RangeIter", ty |-> TypeName, kind |-> kind, start |-> start, end |-> end,
         next |-> DoNext.item, next_back |-> DoNextBack.item,
         small |-> IF IsSmall \/ kind = "from" THEN 1 ELSE 0,
         seq |-> IF kind = "from" THEN Prefix(start, SeqMax)
                 ELSE IF IsSmall THEN SetToSortSeq(RemSet, <) ELSE <<>>]
\* every (start, end) pair is an initial state, so only initial states are emitted (empty witness path)
EmitInv == hist = <<>> =>
             Serialize(ToJson(Line) \o "\n", IOEnv.OUT,
                       [format |-> "TXT", charset |-> "UTF-8", openOptions |-> <<"WRITE", "CREATE", "APPEND">>]).exitValue = 0
=============================================================================
