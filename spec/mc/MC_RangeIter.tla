----------------------------- MODULE MC_RangeIter -----------------------------
EXTENDS RangeIter, Json, IOUtils, SequencesExt
CONSTANTS TypeName, SeqMax

AllVals   == MinV..MaxV
I8Min     == -128
\* char: code points within 6 of the anchors 0, 0xD7FF | 0xE000, 0x10FFFF ...
\* ... and within 3 of the UTF-8 width boundaries (0x7F|0x80, 0x7FF|0x800, 0xFFFF|0x10000) and of the
\* surrogate look-alikes of the supplementary planes (0x1D7FF|0x1D800, 0x10D7FF|0x10D800), where only a
\* 16-bit view of the code point sees a gap
CharNear  == (0..6) \cup (55289..55295) \cup (57344..57350) \cup (1114105..1114111)
               \cup (125..130) \cup (2045..2050) \cup (65533..65538) \cup (120829..120834) \cup (1103869..1103874)

\* expected complete sequence (ascending) when at most SeqMax values remain
Small == ~Remaining.empty /\ Remaining.hi - Remaining.lo <= 2048 + SeqMax
RemSet == IF Small THEN {v \in Remaining.lo..Remaining.hi : InDom(v)} ELSE {}
IsSmall == Remaining.empty \/ (Small /\ Cardinality(RemSet) <= SeqMax)
\* start.. : the first SeqMax values (as long as they stay below MaxV)
RECURSIVE Prefix(_, _)
Prefix(v, k) == IF k = 0 \/ v >= MaxV THEN <<>> ELSE <<v>> \o Prefix(Succ(v), k - 1)
Line == [m |-> "RangeIter", ty |-> TypeName, kind |-> kind, start |-> start, end |-> end,
         next |-> DoNext.item, next_back |-> DoNextBack.item,
         small |-> IF IsSmall \/ kind = "from" THEN 1 ELSE 0,
         seq |-> IF kind = "from" THEN Prefix(start, SeqMax)
                 ELSE IF IsSmall THEN SetToSortSeq(RemSet, <) ELSE <<>>]
\* every (start, end) pair is an initial state, so only initial states are emitted (empty witness path)
EmitInv == hist = <<>> =>
             Serialize(ToJson(Line) \o "\n", IOEnv.OUT,
                       [format |-> "TXT", charset |-> "UTF-8", openOptions |-> <<"WRITE", "CREATE", "APPEND">>]).exitValue = 0
=============================================================================
