SPECIFICATION Spec
CONSTANTS
  Strs <- MCStrs
  Extra <- MCExtra
  MaxChars = 3
INVARIANTS Refines UnsafePre
POSTCONDITION Emit
CHECK_DEADLOCK FALSE
