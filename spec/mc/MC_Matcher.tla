----------------------------- MODULE MC_Matcher -----------------------------
(* Exhaustive configuration of Matcher.tla + emission of the reference vectors. *)
EXTENDS Matcher, Utf8, Json, IOUtils, SequencesExt

CONSTANTS AB_H, AB_N, U_H, U_N,   \* length bounds: {a,b} bytes / {a,b,n-tilde} characters
          RAW_H, RAW_N            \* arbitrary (non-UTF-8) bytes for the slice::bytes_* functions

RawBytes  == {97, 128, 195, 255}  \* ASCII, continuation byte, lead byte, never-valid byte

UChars    == {CA, <<98>>, CNT}
MCHays    == SeqsUpTo({97, 98}, AB_H) \cup StrsUpTo(UChars, U_H) \cup SeqsUpTo(RawBytes, RAW_H)
MCNeedles == SeqsUpTo({97, 98}, AB_N) \cup StrsUpTo(UChars, U_N) \cup SeqsUpTo(RawBytes, RAW_N)

Vec(o, hh, nn) == [m |-> "Matcher", op |-> o, h |-> hh, n |-> nn, exp |-> Ref(o, hh, nn)]
\* one file per operation (TLC limits a set to 10^6 elements); keys are homogeneous tuples
EmitOp(o) == LET ks == SetToSeq({<<hh, nn>> \in MCHays \X MCNeedles : Specified(o, hh, nn)}) IN
             ndJsonSerialize(IOEnv.OUT \o "-" \o o \o ".ndjson", [q \in 1..Len(ks) |-> Vec(o, ks[q][1], ks[q][2])])
Emit == \A o \in Ops : EmitOp(o)
=============================================================================
