----------------------------- MODULE MC_Matcher -----------------------------
(* Exhaustive configuration of Matcher.tla + emission of the reference vectors. *)
EXTENDS Matcher, Utf8, Json, IOUtils, SequencesExt

CONSTANTS AB_H, AB_N, U_H, U_N    \* length bounds: {a,b} bytes / {a,b,n-tilde} characters

UChars    == {CA, <<98>>, CNT}
MCHays    == SeqsUpTo({97, 98}, AB_H) \cup StrsUpTo(UChars, U_H)
MCNeedles == SeqsUpTo({97, 98}, AB_N) \cup StrsUpTo(UChars, U_N)

Vec(o, hh, nn) == [m |-> "Matcher", op |-> o, h |-> hh, n |-> nn, exp |-> Ref(o, hh, nn)]
Vectors == {Vec(o, hh, nn) : o \in Ops, hh \in MCHays, nn \in MCNeedles}
Emit == ndJsonSerialize(IOEnv.OUT, SetToSeq({v \in Vectors : Specified(v.op, v.h, v.n)}))
=============================================================================
