----------------------------- MODULE MC_Matcher -----------------------------
(* Exhaustive configuration of Matcher.tla + emission of the reference vectors. *)
EXTENDS Matcher, Utf8, Json, IOUtils, SequencesExt

CONSTANTS AB_H, AB_N, U_H, U_N,   \* length bounds: {a,b} bytes / {a,b,n-tilde} characters
          RAW_H, RAW_N            \* arbitrary (non-UTF-8) bytes for the slice::bytes_* functions

RawBytes  == {97, 128, 195, 255}  \* ASCII, continuation byte, lead byte, never-valid byte

UChars    == {CA, <<98>>, CNT}
\* characters sharing bytes at different positions, and characters at the ends of every encoded width
XChars    == {CSQRT, CSQRT2, CCRAB, CCRAB2}
\* pairs are formed inside each alphabet family (a needle of another family can only be absent)
MCPairs   == (SeqsUpTo({97, 98}, AB_H) \X SeqsUpTo({97, 98}, AB_N))
               \cup (StrsUpTo(UChars, U_H) \X StrsUpTo(UChars, U_N))
               \cup (SeqsUpTo(RawBytes, RAW_H) \X SeqsUpTo(RawBytes, RAW_N))
               \cup (StrsUpTo(XChars, 3) \X StrsUpTo(XChars, 2))
               \cup (StrsUpTo(EdgeChars, 2) \X StrsUpTo(EdgeChars, 1))
               \cup (StrsUpTo(UChars, 2) \X StrsUpTo(EdgeChars, 1))
               \* bytes 31 / 32 / 33 apart: windows such as "BB" / "Aa" or "Ab" / "BA" collide under the usual
               \* multiplicative rolling hashes (x * 31 + y, x * 33 + y)
               \cup (SeqsUpTo({65, 66, 97, 98}, 4) \X SeqsUpTo({65, 66, 97, 98}, 2))

\* long inputs: k false candidates (occurrences of the needle's first / last byte) before the real occurrence, for
\* every small k and around 64 / 128 / 256; an occurrence beyond offset 255; needles of 256 and more bytes with a near
\* miss in the second-to-last byte
LongNeedle(k) == RepSeq(<<97, 98>>, k \div 2) \o (IF k % 2 = 1 THEN <<97>> ELSE <<>>)
LongPairs == UNION {{ <<RepSeq(<<97>>, k) \o <<98>>, <<97, 98>>>>,                \* a^k b     / ab
                      <<<<98>> \o RepSeq(<<97>>, k), <<98, 97>>>>,                \* b a^k     / ba
                      <<RepSeq(<<97, 99>>, k) \o <<97, 98>>, <<97, 98>>>>,        \* (ac)^k ab / ab
                      <<<<98, 97>> \o RepSeq(<<99, 97>>, k), <<98, 97>>>>,        \* ba (ca)^k / ba
                      <<RepSeq(<<98>>, k) \o <<97>>, <<97>>>> } : k \in RepCounts}
               \cup UNION {{ <<<<99>> \o LongNeedle(k) \o <<99>>, LongNeedle(k)>>,
                             <<[LongNeedle(k) EXCEPT ![k - 1] = 99] \o LongNeedle(k), LongNeedle(k)>>,
                             <<LongNeedle(k) \o [LongNeedle(k) EXCEPT ![k - 1] = 99], LongNeedle(k)>>,
                             <<[LongNeedle(k) EXCEPT ![k - 1] = 99], LongNeedle(k)>> } : k \in {12, 13, 255, 256, 257}}
\* self-overlap family (what breaks border tables and skip heuristics): the needle preceded by one of its proper
\* prefixes, or followed by one of its proper suffixes - a failed partial match that overlaps the real occurrence.
\* Needles: every {a,b} string of 8 bytes (nested borders), and needles whose last / first 8 bytes are pairwise
\* distinct while a piece of that tail / head recurs further inside ("omer-customer", and the mirror images)
Tail8 == <<99, 117, 115, 116, 111, 109, 101, 114>>                       \* c u s t o m e r
DistinctTail == UNION {{SubSeq(Tail8, q, 8) \o <<45>> \o Tail8, <<104>> \o SubSeq(Tail8, q, 8) \o <<45>> \o Tail8} : q \in 2..8}
OverlapNeedles == [1..8 -> {97, 98}] \cup DistinctTail \cup {ReverseSeq(x) : x \in DistinctTail}
OverlapPairs == UNION {UNION {{ <<SubSeq(x, 1, q) \o x, x>>, <<x \o SubSeq(x, q + 1, Len(x)), x>> } : q \in 1..(Len(x) - 1)} : x \in OverlapNeedles}
MCPairsL  == MCPairs \cup LongPairs \cup OverlapPairs

Vec(o, hh, nn) == [m |-> "Matcher", op |-> o, h |-> hh, n |-> nn, exp |-> Ref(o, hh, nn)]
\* one file per operation (TLC limits a set to 10^6 elements); keys are homogeneous tuples
EmitOp(o) == LET ks == SetToSeq({p \in MCPairsL : Specified(o, p[1], p[2])}) IN
             ndJsonSerialize(IOEnv.OUT \o "-" \o o \o ".ndjson", [q \in 1..Len(ks) |-> Vec(o, ks[q][1], ks[q][2])])
Emit == \A o \in Ops : EmitOp(o)
=============================================================================
