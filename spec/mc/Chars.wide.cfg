SPECIFICATION Spec
CONSTANTS
  Strs <- MCStrs
  MaxChars = 3
  Wide = TRUE
VIEW View
INVARIANTS WindowInv Refines ScalarInv EmitInv
CHECK_DEADLOCK FALSE
