SPECIFICATION Spec
CONSTANTS
  MaxN = 3
  CounterAliased = FALSE
  Guarded = TRUE
INVARIANTS AssumePre NoDoubleDrop CompletedNoLeak EmitInv
CONSTRAINT SpinBound
CHECK_DEADLOCK FALSE
