SPECIFICATION Spec
CONSTANTS
  MaxN = 3
  Guarded = TRUE
INVARIANTS AssumePre EmitInv
CONSTRAINT SpinBound
CHECK_DEADLOCK FALSE
