SPECIFICATION Spec
CONSTANTS
  MaxLen = 7
VIEW View
INVARIANTS TypeOK LiveInv Refines RemainderInv ItemsInside ArithInv EmitInv
CHECK_DEADLOCK FALSE
