SPECIFICATION Spec
CONSTANTS
  MaxLen = 7
VIEW View
INVARIANTS TypeOK LiveInv Refines RemainderInv ItemsInside EmitInv
CHECK_DEADLOCK FALSE
