SPECIFICATION Spec
CONSTANTS
  MaxLen = 8
  ArrayNs = {1, 2, 3, 4, 5, 8, 16}
VIEW View
INVARIANTS TypeOK LiveInv Refines RemainderInv ItemsInside ArithInv EmitInv
CHECK_DEADLOCK FALSE
