SPECIFICATION Spec
CONSTANTS
  MinV = 0
  MaxV = 255
  IsChar = FALSE
  Starts <- AllVals
  Ends <- AllVals
  TypeName = "u8"
  SeqMax = 12
  MaxDepth = 300
VIEW View
CONSTRAINT DepthBound
INVARIANTS TypeOK Refines EmitInv
CHECK_DEADLOCK FALSE
