---------------------------- MODULE MC_StripTrim ----------------------------
EXTENDS StripTrim, Json, IOUtils, SequencesExt

CONSTANTS AB_S, AB_N, U_S, U_N, WS_S

UChars   == {CA, <<98>>, CNT, CSQRT}
PatIn    == (SeqsUpTo({97, 98}, AB_S) \X SeqsUpTo({97, 98}, AB_N))
              \cup (StrsUpTo(UChars, U_S) \X StrsUpTo(UChars, U_N))
              \* characters that share bytes at different positions; characters at the ends of each encoded width
              \cup (StrsUpTo({CSQRT, CSQRT2, CCRAB, CCRAB2}, 3) \X StrsUpTo({CSQRT, CSQRT2, CCRAB, CCRAB2}, 2))
              \cup (StrsUpTo(EdgeChars, 2) \X StrsUpTo(EdgeChars, 1))
              \* arbitrary (non-UTF-8) bytes for the slice::bytes_* functions: ASCII, continuation bytes, a lead byte,
              \* a never-valid byte - e.g. a continuation byte right after the stripped prefix
              \cup (SeqsUpTo({97, 128, 191, 195, 255}, 3) \X SeqsUpTo({97, 128, 191, 195, 255}, 2))
\* long inputs: k repetitions of the pattern at either end for every small k and around 64 / 128 / 256 (a trimmer that
\* recurses once per repetition, or keeps a count in a narrow integer, only shows there); patterns of 12 / 13 and
\* 255..257 bytes, also with a near miss in the second-to-last or last-but-three byte
LongPat(rr) == RepSeq(<<97, 98>>, rr \div 2) \o (IF rr % 2 = 1 THEN <<97>> ELSE <<>>)
LongIn == UNION {{ <<RepSeq(<<97>>, rr) \o <<98>> \o RepSeq(<<97>>, rr), <<97>>>>,
                   <<RepSeq(<<97, 98>>, rr) \o <<97>>, <<97, 98>>>>,
                   <<<<98>> \o RepSeq(<<97, 98>>, rr), <<97, 98>>>>,
                   <<RepSeq(CNT, rr) \o <<97>> \o RepSeq(CNT, rr), CNT>> } : rr \in RepCounts}
            \cup UNION {{ <<LongPat(rr) \o <<99>> \o LongPat(rr), LongPat(rr)>>,
                          <<[LongPat(rr) EXCEPT ![rr - 1] = 99] \o <<99>> \o [LongPat(rr) EXCEPT ![rr - 1] = 99], LongPat(rr)>>,
                          <<[LongPat(rr) EXCEPT ![rr - 4] = 99] \o <<99>> \o [LongPat(rr) EXCEPT ![rr - 4] = 99], LongPat(rr)>>,
                          <<LongPat(rr), LongPat(rr)>> } : rr \in {12, 13, 255, 256, 257}}
\* long whitespace runs for trim / trim_start / trim_end
LongWs == {RepSeq(<<32>>, rr) \o <<97>> \o RepSeq(<<9, 32>>, rr) : rr \in {40, 64, 128, 129, 256, 257}}
\* every ASCII byte at each end / inside, plus all short strings over whitespace-ish bytes
WsAlpha  == {32, 9, 12, 11, 97}
WsStrs   == SeqsUpTo(WsAlpha, WS_S)
              \cup UNION {{<<b>>, <<b, 97>>, <<97, b>>, <<b, 97, b>>, <<97, b, 97>>, <<b, b, 97, 32>>} : b \in 0..127}
              \cup {<<32>> \o CNT \o <<9>>, CSQRT \o <<10, 13>>, <<12>> \o CCRAB \o <<12, 32>>}
              \* every byte >= 0x80 at each end (byte-slice functions; not UTF-8)
              \cup UNION {{<<b>>, <<b, 97>>, <<97, b>>, <<32, b, 32>>} : b \in 128..255}
              \* valid strings whose first / last character ends in every possible continuation byte, and starts
              \* with every kind of lead byte (a byte-wise trimmer must not cut inside them)
              \cup UNION {{<<195, c>>, <<32, 195, c, 32>>, <<97, 195, c>>, <<226, 128, c, 9>>} : c \in 128..191}
              \cup UNION {{<<ld, 128>>, <<ld, 128, 32>>} : ld \in 194..223}
ASSUME \A in \in (SeqsUpTo({97, 98}, 6) \X (SeqsUpTo({97, 98}, 3) \ {<<>>})) :
          RepsStart(in[1], in[2]) = RepsStartDecl(in[1], in[2]) /\ RepsEnd(in[1], in[2]) = RepsEndDecl(in[1], in[2])
MCInputs == PatIn \cup LongIn \cup {<<w, <<>>>> : w \in WsStrs \cup LongWs}

Vec(o, ss, nn) == [m |-> "StripTrim", op |-> o, s |-> ss, n |-> nn, exp |-> Ref(o, ss, nn)]
\* keys are homogeneous tuples (cheap to normalise); the records are built as a sequence
Keys == {<<o, in[1], in[2]>> : o \in PatOps, in \in PatIn \cup LongIn}
          \cup {<<o, w, <<>>>> : o \in SpaceOps, w \in WsStrs \cup LongWs \cup {in[1] : in \in PatIn}}
Emit == LET ks == SetToSeq({kk \in Keys : Specified(kk[1], kk[2], kk[3])}) IN
        ndJsonSerialize(IOEnv.OUT, [q \in 1..Len(ks) |-> Vec(ks[q][1], ks[q][2], ks[q][3])])
=============================================================================
