SPECIFICATION Spec
CONSTANTS
  Inputs <- MCInputs
  MaxTokens = 2
  SmallRange = 30
INVARIANTS Refines ReadsInBounds
POSTCONDITION Emit
CHECK_DEADLOCK FALSE
