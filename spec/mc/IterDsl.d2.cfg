SPECIFICATION Spec
CONSTANTS
  Depth = 2
  Wide = TRUE
INVARIANTS Agree EmitInv
CHECK_DEADLOCK FALSE
