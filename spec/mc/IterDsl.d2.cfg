SPECIFICATION Spec
CONSTANTS
  Depth = 2
INVARIANTS Agree EmitInv
CHECK_DEADLOCK FALSE
