SPECIFICATION Spec
CONSTANTS
  N = 1
  MaxVals = 6
VIEW View
INVARIANTS AssumePre NoDup EmitInv
CHECK_DEADLOCK FALSE
