SPECIFICATION Spec
CONSTANTS
  N = 3
  MaxClones = 1
VIEW View
INVARIANTS NoErr OwnerConsistent NoLeak HandedOnce EmitInv
CHECK_DEADLOCK FALSE
