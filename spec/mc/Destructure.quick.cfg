SPECIFICATION Spec
CONSTANTS
  Descs <- MCDescs
  Guards <- AllGuards
  MaxN = 3
INVARIANTS VerdictOK LedgerOK OrderOK
POSTCONDITION Emit
CHECK_DEADLOCK FALSE
