SPECIFICATION Spec
CONSTANTS
  Origs <- MCOrigs
  Bases = {0, 10}
  Pats <- MCPats
  Delims <- MCDelims
  SkipNs = {0, 1, 2, 200}
  MaxChars = 2
  WithMinus = FALSE
VIEW View
INVARIANTS OffsetInv WindowInv ErrorInv SplitProtocol Utf8Inv EmitInv
CHECK_DEADLOCK FALSE
