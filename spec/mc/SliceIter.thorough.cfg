SPECIFICATION Spec
CONSTANTS
  MaxLen = 10
VIEW View
INVARIANTS TypeOK LiveInv Refines RemainderInv ItemsInside ArithInv EmitInv
CHECK_DEADLOCK FALSE
