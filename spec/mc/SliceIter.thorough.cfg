SPECIFICATION Spec
CONSTANTS
  MaxLen = 10
VIEW View
INVARIANTS TypeOK LiveInv Refines RemainderInv ItemsInside EmitInv
CHECK_DEADLOCK FALSE
