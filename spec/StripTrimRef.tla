---------------------------- MODULE StripTrimRef -----------------------------
(* Reference semantics of prefix/suffix stripping and trimming, shared by StripTrim and Parser. *)
EXTENDS Common

IsAsciiWs(b) == b \in {9, 10, 12, 13, 32}       \* u8::is_ascii_whitespace

StripPrefix(s, n) == IF IsPrefixOf(n, s) THEN Some(From(s, Len(n))) ELSE None
StripSuffix(s, n) == IF IsSuffixOf(n, s) THEN Some(UpTo(s, Len(s) - Len(n))) ELSE None

\* maximal number of whole repetitions of n at the start / end of s
\* (declarative form, used on short inputs: RepsStartDecl / RepsEndDecl; the form below is the same number computed
\* in linear time - the first position at which s stops being n repeated - and MC_StripTrim ASSUMEs they agree)
RepsStartDecl(s, n) == SetMax({k \in 0..Len(s) : IsPrefixOf(Repeat(n, k), s)})
RepsEndDecl(s, n)   == SetMax({k \in 0..Len(s) : IsSuffixOf(Repeat(n, k), s)})
RepsStart(s, n) == LET bad == {q \in 1..Len(s) : s[q] # n[((q - 1) % Len(n)) + 1]}
                       p   == IF bad = {} THEN Len(s) + 1 ELSE SetMin(bad)
                   IN (p - 1) \div Len(n)
RepsEnd(s, n)   == LET bad == {q \in 1..Len(s) : s[Len(s) - q + 1] # n[Len(n) - ((q - 1) % Len(n))]}
                       p   == IF bad = {} THEN Len(s) + 1 ELSE SetMin(bad)
                   IN (p - 1) \div Len(n)
TrimStartM(s, n) == IF n = <<>> THEN s ELSE From(s, Len(n) * RepsStart(s, n))
TrimEndM(s, n)   == IF n = <<>> THEN s ELSE UpTo(s, Len(s) - Len(n) * RepsEnd(s, n))

WsStart(s) == IF \A i \in 1..Len(s) : IsAsciiWs(s[i]) THEN Len(s)
              ELSE SetMin({i \in 1..Len(s) : ~IsAsciiWs(s[i])}) - 1      \* number of leading ws bytes
WsEnd(s)   == IF \A i \in 1..Len(s) : IsAsciiWs(s[i]) THEN Len(s)
              ELSE Len(s) - SetMax({i \in 1..Len(s) : ~IsAsciiWs(s[i])})  \* number of trailing ws bytes
TrimStartWs(s) == From(s, WsStart(s))
TrimEndWs(s)   == UpTo(s, Len(s) - WsEnd(s))
TrimWs(s)      == TrimStartWs(TrimEndWs(s))

=============================================================================
