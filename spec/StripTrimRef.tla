---------------------------- MODULE StripTrimRef -----------------------------
(* Reference semantics of prefix/suffix stripping and trimming, shared by StripTrim and Parser. *)
EXTENDS Common

IsAsciiWs(b) == b \in {9, 10, 12, 13, 32}       \* u8::is_ascii_whitespace

StripPrefix(s, n) == IF IsPrefixOf(n, s) THEN Some(From(s, Len(n))) ELSE None
StripSuffix(s, n) == IF IsSuffixOf(n, s) THEN Some(UpTo(s, Len(s) - Len(n))) ELSE None

\* maximal number of whole repetitions of n at the start / end of s
RepsStart(s, n) == SetMax({k \in 0..Len(s) : IsPrefixOf(Repeat(n, k), s)})
RepsEnd(s, n)   == SetMax({k \in 0..Len(s) : IsSuffixOf(Repeat(n, k), s)})
TrimStartM(s, n) == IF n = <<>> THEN s ELSE From(s, Len(n) * RepsStart(s, n))
TrimEndM(s, n)   == IF n = <<>> THEN s ELSE UpTo(s, Len(s) - Len(n) * RepsEnd(s, n))

WsStart(s) == IF \A i \in 1..Len(s) : IsAsciiWs(s[i]) THEN Len(s)
              ELSE SetMin({i \in 1..Len(s) : ~IsAsciiWs(s[i])}) - 1      \* number of leading ws bytes
WsEnd(s)   == IF \A i \in 1..Len(s) : IsAsciiWs(s[i]) THEN Len(s)
              ELSE Len(s) - SetMax({i \in 1..Len(s) : ~IsAsciiWs(s[i])})  \* number of trailing ws bytes
TrimStartWs(s) == From(s, WsStart(s))
TrimEndWs(s)   == UpTo(s, Len(s) - WsEnd(s))
TrimWs(s)      == TrimStartWs(TrimEndWs(s))

=============================================================================
