-------------------------------- MODULE Split --------------------------------
(***************************************************************************)
(* C06: string::split / rsplit (= split(..).rev()) / split_terminator /     *)
(* rsplit_terminator.                                                       *)
(*                                                                          *)
(* State = the struct's fields: `this` (window [lo,hi) of s; after the last *)
(* piece the code stores a fresh ""), the State enum                        *)
(* (Normal | Empty(Start) | Empty(Continue) | Finished) and fwd.            *)
(*  M : the code: Normal uses find / rfind + str_up_to / str_from; the      *)
(*      empty-delimiter mode walks one char boundary per step and sets      *)
(*      Finished when `this` is empty *before* yielding the final "".       *)
(*  R : piece lists defined from Find / RFind (MatcherRef):                 *)
(*      Pieces = str::split, RPieces = str::rsplit,                         *)
(*      split_terminator = Pieces minus a trailing empty piece,             *)
(*      rsplit_terminator = RPieces minus the empty piece that precedes a   *)
(*      leading delimiter (documented mirrored rule).                       *)
(***************************************************************************)
EXTENDS Common, Utf8, MatcherRef, TLC

CONSTANTS Pairs      \* set of <<string, delimiter>> pairs

VARIABLES kind, s, d, lo, hi, phase, fwd, hist
vars == <<kind, s, d, lo, hi, phase, fwd, hist>>
View == <<kind, s, d, lo, hi, phase, fwd>>

This == Slice(s, lo, hi)

-----------------------------------------------------------------------------
(* R *)
RECURSIVE Pieces(_, _)
Pieces(x, dl) == LET f == Find(x, dl) IN
                 IF IsNone(f) THEN <<x>> ELSE <<UpTo(x, f.some)>> \o Pieces(From(x, f.some + Len(dl)), dl)
RECURSIVE RPieces(_, _)
RPieces(x, dl) == LET f == RFind(x, dl) IN
                  IF IsNone(f) THEN <<x>> ELSE <<From(x, f.some + Len(dl))>> \o RPieces(UpTo(x, f.some), dl)

RECURSIVE CharPieces(_)
CharPieces(x) == IF x = <<>> THEN <<>>
                 ELSE LET w == WidthOf(x[1]) IN <<SubSeq(x, 1, w)>> \o CharPieces(SubSeq(x, w + 1, Len(x)))
\* std: "ab".split("") = ["", "a", "b", ""]
EmptyPieces(x) == <<<<>>>> \o CharPieces(x) \o <<<<>>>>

DropLastIfEmpty(ps) == IF ps # <<>> /\ ps[Len(ps)] = <<>> THEN SubSeq(ps, 1, Len(ps) - 1) ELSE ps

\* complete expected sequence of each iterator over x
SplitSeq(x, dl)     == IF dl = <<>> THEN EmptyPieces(x) ELSE Pieces(x, dl)
RSplitSeq(x, dl)    == IF dl = <<>> THEN ReverseSeq(EmptyPieces(x)) ELSE RPieces(x, dl)
SplitTermSeq(x, dl) == DropLastIfEmpty(SplitSeq(x, dl))
RSplitTermSeq(x, dl) == DropLastIfEmpty(RSplitSeq(x, dl))

OneChar(dl) == dl # <<>> /\ WidthOf(dl[1]) = Len(dl)

-----------------------------------------------------------------------------
(* M *)
Res(item, nlo, nhi, nph) == [item |-> item, lo |-> nlo, hi |-> nhi, phase |-> nph]
NoRes == Res(None, lo, hi, phase)

NextBoundary0 == \* __find_next_char_boundary(this, 0)
    IF This = <<>> THEN 1 ELSE WidthOf(This[1])
PrevBoundaryEnd == \* __find_prev_char_boundary(this, len)
    IF This = <<>> THEN 0 ELSE SetMax({i \in 0..(Len(This) - 1) : IsLead(This[i + 1])})

\* `next` of Split / SplitTerminator, `next` of RSplitTerminator is BackStep
FrontStep ==
    CASE phase = "Finished" -> NoRes
      [] kind # "split" /\ phase # "EmptyStart" /\ lo = hi -> NoRes          \* terminator forms: `_ if this.is_empty()`
      [] phase = "EmptyStart" -> Res(Some(<<>>), lo, hi, "EmptyCont")
      [] phase = "EmptyCont" ->
            LET cut == MinOf(NextBoundary0, Len(This)) IN
            Res(Some(UpTo(This, cut)), lo + cut, hi,
                IF kind = "split" /\ lo = hi THEN "Finished" ELSE "EmptyCont")
      [] phase = "Normal" ->
            LET f == Find(This, d) IN
            IF IsSome(f) THEN Res(Some(UpTo(This, f.some)), lo + f.some + Len(d), hi, "Normal")
            ELSE IF kind = "split" THEN Res(Some(This), 0, 0, "Finished")
            ELSE Res(Some(This), hi, hi, "Normal")

BackStep ==
    CASE phase = "Finished" -> NoRes
      [] kind # "split" /\ phase # "EmptyStart" /\ lo = hi -> NoRes
      [] phase = "EmptyStart" -> Res(Some(<<>>), lo, hi, "EmptyCont")
      [] phase = "EmptyCont" ->
            LET cut == PrevBoundaryEnd IN
            Res(Some(From(This, cut)), lo, lo + cut,
                IF kind = "split" /\ lo = hi THEN "Finished" ELSE "EmptyCont")
      [] phase = "Normal" ->
            LET f == RFind(This, d) IN
            IF IsSome(f) THEN Res(Some(From(This, f.some + Len(d))), lo, lo + f.some, "Normal")
            ELSE IF kind = "split" THEN Res(Some(This), 0, 0, "Finished")
            ELSE Res(Some(This), lo, lo, "Normal")

\* which code runs for the public next / next_back of the current type
DoNext     == IF kind = "rsplit_terminator" THEN BackStep ELSE IF fwd THEN FrontStep ELSE BackStep
DoNextBack == IF fwd THEN BackStep ELSE FrontStep

Init == /\ kind \in {"split", "split_terminator", "rsplit_terminator"}
        /\ \E p \in Pairs : s = p[1] /\ d = p[2]
        /\ lo = 0 /\ hi = Len(s) /\ phase = (IF d = <<>> THEN "EmptyStart" ELSE "Normal")
        /\ fwd = TRUE /\ hist = <<>>

\* Both ends may be mixed only for one-character delimiters (std is double-ended only there; with
\* self-overlapping string delimiters the two ends legitimately disagree).
Has(name) == \E i \in 1..Len(hist) : hist[i] = name
CanNext     == OneChar(d) \/ kind # "split" \/ ~Has("next_back")
CanNextBack == kind = "split" /\ (OneChar(d) \/ ~Has("next"))
CanRev      == kind = "split" /\ (OneChar(d) \/ hist = <<>>)

Take(r, name) == /\ IsSome(r.item) /\ lo' = r.lo /\ hi' = r.hi /\ phase' = r.phase
                 /\ hist' = Append(hist, name) /\ UNCHANGED <<kind, s, d, fwd>>
Next_    == CanNext /\ Take(DoNext, "next")
NextBack == CanNextBack /\ Take(DoNextBack, "next_back")
Rev      == CanRev /\ fwd' = ~fwd /\ hist' = Append(hist, "rev") /\ UNCHANGED <<kind, s, d, lo, hi, phase>>
Next == Next_ \/ NextBack \/ Rev
Spec == Init /\ [][Next]_vars

-----------------------------------------------------------------------------
WindowInv == /\ 0 <= lo /\ lo <= hi /\ hi <= Len(s)
             /\ IsCharBoundary(s, lo) /\ IsCharBoundary(s, hi)           \* remainder() is a str (C01)

\* pieces still to come, computed from the state alone
SeqFront == CASE phase = "Finished" -> <<>>
              [] phase = "EmptyStart" -> IF kind = "split" THEN EmptyPieces(This) ELSE DropLastIfEmpty(EmptyPieces(This))
              [] phase = "EmptyCont" -> IF kind = "split" THEN CharPieces(This) \o <<<<>>>> ELSE CharPieces(This)
              [] phase = "Normal" -> IF kind = "split" THEN Pieces(This, d)
                                     ELSE IF This = <<>> THEN <<>> ELSE DropLastIfEmpty(Pieces(This, d))
\* pieces still to come from the back, in the order they are yielded
SeqBack  == CASE phase = "Finished" -> <<>>
              [] phase = "EmptyStart" -> IF kind = "split" THEN <<<<>>>> \o ReverseSeq(CharPieces(This)) \o <<<<>>>>
                                         ELSE <<<<>>>> \o ReverseSeq(CharPieces(This))
              [] phase = "EmptyCont" -> IF kind = "split" THEN ReverseSeq(CharPieces(This)) \o <<<<>>>>
                                        ELSE ReverseSeq(CharPieces(This))
              [] phase = "Normal" -> IF kind = "split" THEN RPieces(This, d)
                                     ELSE IF This = <<>> THEN <<>> ELSE DropLastIfEmpty(RPieces(This, d))

Refines ==
    /\ kind # "rsplit_terminator" => FrontStep.item = (IF SeqFront = <<>> THEN None ELSE Some(SeqFront[1]))
    /\ kind # "split_terminator" => BackStep.item = (IF SeqBack = <<>> THEN None ELSE Some(SeqBack[1]))

\* at every step the remainder is the not-yet-split part of the input
RemainderInv ==
    /\ phase = "Normal" /\ kind = "split" /\ ~Has("next_back") /\ ~Has("rev") =>
          \E k \in 0..Len(Pieces(s, d)) : This = From(s, Len(s) - Len(This)) /\ hi = Len(s)
    /\ phase = "Normal" /\ kind = "split_terminator" => hi = Len(s)
    /\ phase = "Normal" /\ kind = "rsplit_terminator" => lo = 0

\* at the initial state the complete sequences are std's
InitialSeqs == hist = <<>> =>
    /\ kind = "split" => SeqFront = SplitSeq(s, d) /\ SeqBack = RSplitSeq(s, d)
    /\ kind = "split_terminator" => SeqFront = SplitTermSeq(s, d)
    /\ kind = "rsplit_terminator" => SeqBack = RSplitTermSeq(s, d)

\* one-character delimiters: the two ends agree (double-ended iteration is well defined)
EndsAgree == OneChar(d) /\ phase = "Normal" /\ kind = "split" => ReverseSeq(RPieces(This, d)) = Pieces(This, d)
=============================================================================
