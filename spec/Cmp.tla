--------------------------------- MODULE Cmp ---------------------------------
(***************************************************************************)
(* C16: eq_* / cmp_* functions and const_eq! / const_cmp! (+ _for forms).  *)
(*                                                                         *)
(* Abstract values: a scalar is a natural number (its position among the   *)
(* type's anchor values MIN .. MAX, which the harness maps order-          *)
(* preservingly into each of the supported types); a flat sequence is a    *)
(* slice / string; a nested sequence is a slice of strings / byte slices;  *)
(* an optional value is None | Some(v).                                    *)
(*                                                                         *)
(*  R : `=` and the lexicographic order (None before Some).                *)
(*  M : the comparison loops of the code, one action per element:          *)
(*      eq:  length test, then element loop;                               *)
(*      cmp: element loop up to the shorter length, then the lengths       *)
(*           (cmp_inner, cmp_str_inner, const_cmp_for!(slice ..));         *)
(*      option arms as one `match`;                                        *)
(*      record: a user aggregate compared through impl_cmp! — the fields   *)
(*           in order, `&&` of const_eq! for eq, a chain of                *)
(*           try_equal!(const_cmp!(..)) for cmp (returns at the first      *)
(*           non-Equal field, Equal after the last).                       *)
(***************************************************************************)
EXTENDS Common, TLC

CONSTANTS Flat,     \* set of flat sequences
          Nested    \* set of sequences of flat sequences

RecordFields == 3      \* number of fields of the user aggregate of kind "record"
Ord == {"Less", "Equal", "Greater"}
IntCmp(x, y) == IF x < y THEN "Less" ELSE IF x > y THEN "Greater" ELSE "Equal"

RECURSIVE LexFlat(_, _)
LexFlat(l, r) == IF l = <<>> /\ r = <<>> THEN "Equal"
                 ELSE IF l = <<>> THEN "Less"
                 ELSE IF r = <<>> THEN "Greater"
                 ELSE IF IntCmp(Head(l), Head(r)) # "Equal" THEN IntCmp(Head(l), Head(r))
                 ELSE LexFlat(Tail(l), Tail(r))

RECURSIVE LexNested(_, _)
LexNested(l, r) == IF l = <<>> /\ r = <<>> THEN "Equal"
                   ELSE IF l = <<>> THEN "Less"
                   ELSE IF r = <<>> THEN "Greater"
                   ELSE IF LexFlat(Head(l), Head(r)) # "Equal" THEN LexFlat(Head(l), Head(r))
                   ELSE LexNested(Tail(l), Tail(r))

\* reference for a pair of kind k
RefCmp(k, l, r) == CASE k = "scalar" -> IntCmp(l, r)
                     [] k \in {"flat", "record"} -> LexFlat(l, r)
                     [] k = "nested" -> LexNested(l, r)
RefOptCmp(k, l, r) ==
    IF IsNone(l) /\ IsNone(r) THEN "Equal"
    ELSE IF IsNone(l) THEN "Less"
    ELSE IF IsNone(r) THEN "Greater"
    ELSE RefCmp(k, l.some, r.some)

-----------------------------------------------------------------------------
(* M: the element loops *)
VARIABLES kind, l, r, mode, i, pc, res
vars == <<kind, l, r, mode, i, pc, res>>

Init == /\ \/ kind = "flat" /\ l \in Flat /\ r \in Flat
           \/ kind = "nested" /\ l \in Nested /\ r \in Nested
           \/ kind = "record" /\ l \in Flat /\ r \in Flat /\ Len(l) = RecordFields /\ Len(r) = RecordFields
        /\ mode \in {"eq", "cmp"}
        /\ i = 0 /\ pc = "start" /\ res = "none"

ElemCmp(x, y) == IF kind \in {"flat", "record"} THEN IntCmp(x, y) ELSE LexFlat(x, y)

Start ==
    /\ pc = "start" /\ UNCHANGED <<kind, l, r, mode, i>>
    /\ IF mode = "eq" /\ kind # "record" /\ Len(l) # Len(r) THEN res' = "false" /\ pc' = "done"
       ELSE pc' = "loop" /\ UNCHANGED res

Step ==
    /\ pc = "loop" /\ UNCHANGED <<kind, l, r, mode>>
    /\ IF mode = "eq"
       THEN IF i = Len(l) THEN res' = "true" /\ pc' = "done" /\ UNCHANGED i
            ELSE IF l[i + 1] # r[i + 1] THEN res' = "false" /\ pc' = "done" /\ UNCHANGED i
            ELSE i' = i + 1 /\ UNCHANGED <<pc, res>>
       ELSE IF i = MinOf(Len(l), Len(r))
            THEN \* slices: the lengths decide; record: the last try_equal! yields Equal
                 res' = (IF kind = "record" THEN "Equal" ELSE IntCmp(Len(l), Len(r))) /\ pc' = "done" /\ UNCHANGED i
            ELSE IF ElemCmp(l[i + 1], r[i + 1]) # "Equal"
            THEN res' = ElemCmp(l[i + 1], r[i + 1]) /\ pc' = "done" /\ UNCHANGED i
            ELSE i' = i + 1 /\ UNCHANGED <<pc, res>>

Next == Start \/ Step
Spec == Init /\ [][Next]_vars

ReadsInBounds == pc = "loop" /\ i < (IF mode = "eq" THEN Len(l) ELSE MinOf(Len(l), Len(r)))
                    => i + 1 <= Len(l) /\ i + 1 <= Len(r)

Refines == pc = "done" =>
              IF mode = "eq" THEN res = (IF l = r THEN "true" ELSE "false")
              ELSE res = (IF kind \in {"flat", "record"} THEN LexFlat(l, r) ELSE LexNested(l, r))

-----------------------------------------------------------------------------
(* laws of the reference order on the explored domain (consequences stated by the property) *)
Rev(o) == IF o = "Less" THEN "Greater" ELSE IF o = "Greater" THEN "Less" ELSE "Equal"
Laws(S, C(_, _)) ==
    /\ \A a, b \in S : C(a, b) \in Ord /\ C(b, a) = Rev(C(a, b)) /\ (C(a, b) = "Equal" <=> a = b)
    /\ \A a, b, c \in S : C(a, b) = "Less" /\ C(b, c) = "Less" => C(a, c) = "Less"
=============================================================================
