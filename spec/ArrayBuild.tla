------------------------------ MODULE ArrayBuild ------------------------------
(***************************************************************************)
(* C11: array::map! / from_fn! (index loop over a MaybeUninit array),       *)
(* array::map_! / from_fn_! (ArrayConsumer -> ArrayBuilder loop) and        *)
(* iter::collect_const! (one const fn evaluated twice).                     *)
(*                                                                          *)
(* The user closure is *inlined* into the loop, so it may leave by `break`, *)
(* `continue`, `return` or a panic.  Its behaviour per iteration is a       *)
(* nondeterministic outcome in {Val, Break, Continue, Return, Panic}.       *)
(*                                                                          *)
(*  M : the generated loops, one action per iteration, with the init bit    *)
(*      of every slot.                                                      *)
(*  R : the array is returned ("returned") only with every slot written     *)
(*      and slot i holding the i-th closure value; every other run ends     *)
(*      panicked / left the function / keeps looping.                       *)
(***************************************************************************)
EXTENDS Common, TLC

CONSTANTS MaxN,
          Guarded,    \* TRUE: the `assert!(i == len)` / `assert!(length == CAP)` / `assert!(is_full)` are present
          CounterAliased   \* FALSE: whatever its pattern (plain / mut / ref / ref mut) the closure parameter binds a copy of the
                           \* index; TRUE: the pinned tree, where from_fn!'s `ref mut` parameter was the loop counter itself (F12)

\* "Skip": the closure adds one to the loop counter through an aliasing parameter and then yields a value
Outcomes == {"Val", "Break", "Continue", "Return", "Panic"} \cup (IF CounterAliased THEN {"Skip"} ELSE {})
Forms == {"map", "map_byval", "collect"}

VARIABLES form, n, i, slots, pushed, pass, cap, pc, spins,
          exit, pos,      \* the closure leaves by `exit` when it is called for element `pos` (0-based), else yields a value
          led             \* by-value forms (C15): how often each input / output element has been dropped so far
vars == <<form, n, i, slots, pushed, pass, cap, pc, spins, exit, pos, led>>

\* drop ledger of map_! / from_fn_!: din[q] for the q-th element of the consumed array, dout[q] for the q-th pushed value
Bump(f, S) == [q \in DOMAIN f |-> IF q \in S THEN f[q] + 1 ELSE f[q]]

Init == /\ form \in Forms /\ n \in 0..MaxN
        /\ i = 0 /\ slots = [q \in 1..n |-> "U"] /\ pushed = 0 /\ pass = 1 /\ cap = 0
        /\ pc = "loop" /\ spins = 0
        /\ exit \in Outcomes /\ pos \in 0..MaxN
        /\ (exit = "Val" => pos = 0) /\ (form = "collect" => exit = "Val") /\ (exit = "Skip" => form = "map")
        /\ led = [din |-> [q \in 1..n |-> 0], dout |-> [q \in 1..n |-> 0]]

\* array::map! / from_fn!:  while i < len { out[i] = MaybeUninit::new(mapper); i += 1 }  assert!(i == len)
MapIter(o) ==
    /\ form = "map" /\ pc = "loop" /\ i < n
    /\ UNCHANGED <<form, n, pushed, pass, cap, exit, pos, led>>
    /\ CASE o = "Val"      -> slots' = [slots EXCEPT ![i + 1] = "I"] /\ i' = i + 1 /\ UNCHANGED <<pc, spins>>
         [] o = "Break"    -> pc' = "after" /\ UNCHANGED <<slots, i, spins>>
         [] o = "Continue" -> spins' = spins + 1 /\ UNCHANGED <<slots, i, pc>>        \* `i` is not advanced
         [] o = "Return"   -> pc' = "left" /\ UNCHANGED <<slots, i, spins>>
         [] o = "Panic"    -> pc' = "panicked" /\ UNCHANGED <<slots, i, spins>>
         \* the counter was bumped before `out[i] = value` is stored (the index is evaluated after the value)
         [] o = "Skip"     -> IF i + 1 < n THEN slots' = [slots EXCEPT ![i + 2] = "I"] /\ i' = i + 2 /\ UNCHANGED <<pc, spins>>
                              ELSE pc' = "panicked" /\ UNCHANGED <<slots, i, spins>>
MapExit == /\ form = "map" /\ pc = "loop" /\ i = n /\ pc' = "after"
           /\ UNCHANGED <<form, n, i, slots, pushed, pass, cap, spins, exit, pos, led>>
MapAssert == /\ form = "map" /\ pc = "after"
             /\ pc' = IF Guarded /\ i # n THEN "panicked" ELSE "assume"
             /\ UNCHANGED <<form, n, i, slots, pushed, pass, cap, spins, exit, pos, led>>

\* array::map_! / from_fn_!:  while let Some(e) = consumer.next() { builder.push(mapper) }  forget(consumer); builder.build()
ByValIter(o) ==
    /\ form = "map_byval" /\ pc = "loop" /\ i < n
    /\ UNCHANGED <<form, n, pass, cap, exit, pos>>
    \* consumer.next() hands element i+1 to the closure, which owns it: it is dropped there exactly once whatever the
    \* closure does next (consumed by the mapping, or dropped when the closure body is left early).
    \* `return` / a panic additionally run the destructors of the locals: the ArrayConsumer drops the elements it
    \* still holds, the ArrayBuilder the values pushed so far.
    /\ led' = [din |-> Bump(led.din, {i + 1} \cup (IF o \in {"Return", "Panic"} THEN (i + 2)..n ELSE {})),
               dout |-> Bump(led.dout, IF o \in {"Return", "Panic"} THEN 1..pushed ELSE {})]
    /\ CASE o = "Val"      -> slots' = [slots EXCEPT ![pushed + 1] = "I"] /\ pushed' = pushed + 1 /\ i' = i + 1 /\ UNCHANGED <<pc, spins>>
         [] o = "Break"    -> pc' = "after" /\ i' = i + 1 /\ UNCHANGED <<slots, pushed, spins>>
         \* `continue` re-evaluates consumer.next(): the element is consumed, nothing is pushed
         [] o = "Continue" -> i' = i + 1 /\ UNCHANGED <<slots, pushed, pc, spins>>
         [] o = "Return"   -> pc' = "left" /\ i' = i + 1 /\ UNCHANGED <<slots, pushed, spins>>
         [] o = "Panic"    -> pc' = "panicked" /\ i' = i + 1 /\ UNCHANGED <<slots, pushed, spins>>
ByValExit == /\ form = "map_byval" /\ pc = "loop" /\ i = n /\ pc' = "after"
             /\ UNCHANGED <<form, n, i, slots, pushed, pass, cap, spins, exit, pos, led>>
\* mem::forget(consumer) (whatever it still holds is leaked - only after `break`), then build(): assert!(is_full);
\* when the assertion fails the builder is dropped by the unwinding
ByValBuild == /\ form = "map_byval" /\ pc = "after"
              /\ pc' = IF Guarded /\ pushed # n THEN "panicked" ELSE "assume"       \* build(): assert!(is_full)
              /\ led' = IF Guarded /\ pushed # n THEN [led EXCEPT !.dout = Bump(led.dout, 1..pushed)] ELSE led
              /\ UNCHANGED <<form, n, i, slots, pushed, pass, cap, spins, exit, pos>>

\* collect_const!: pass 1 counts the items (CAP), pass 2 writes array[length] and asserts length == CAP.
\* Both passes evaluate the same const fn on the same data, so the iterator yields the same n items.
CollectIter ==
    /\ form = "collect" /\ pc = "loop" /\ i < n
    /\ IF pass = 2 THEN slots' = [slots EXCEPT ![i + 1] = "I"] ELSE UNCHANGED slots
    /\ i' = i + 1 /\ UNCHANGED <<form, n, pushed, pass, cap, pc, spins, exit, pos, led>>
CollectEnd ==
    /\ form = "collect" /\ pc = "loop" /\ i = n
    /\ IF pass = 1 THEN cap' = i /\ pass' = 2 /\ i' = 0 /\ UNCHANGED pc
       ELSE pc' = (IF Guarded /\ i # cap THEN "panicked" ELSE "assume") /\ UNCHANGED <<cap, pass, i>>
    /\ UNCHANGED <<form, n, slots, pushed, spins, exit, pos, led>>

\* array_assume_init / the read in build()
Assume == /\ pc = "assume" /\ pc' = "returned" /\ UNCHANGED <<form, n, i, slots, pushed, pass, cap, spins, exit, pos, led>>
\* by-value forms: the caller eventually drops the returned array
CallerDrop == /\ form = "map_byval" /\ pc = "returned" /\ pc' = "finished"
              /\ led' = [led EXCEPT !.dout = Bump(led.dout, 1..n)]
              /\ UNCHANGED <<form, n, i, slots, pushed, pass, cap, spins, exit, pos>>

\* what the closure does when called for the current element
Outcome == IF exit # "Val" /\ i = pos THEN exit ELSE "Val"

Next == MapIter(Outcome) \/ ByValIter(Outcome) \/ MapExit \/ MapAssert \/ ByValExit \/ ByValBuild
           \/ CollectIter \/ CollectEnd \/ Assume \/ CallerDrop
Spec == Init /\ [][Next]_vars

\* precondition of assume_init: every slot has been written
AssumePre == pc \in {"assume", "returned"} => \A q \in 1..n : slots[q] = "I"
SpinBound == spins <= 1

\* C15 on the by-value forms: nothing is dropped twice; on a path that runs to completion (the array was returned and
\* dropped by the caller, or the closure returned from the enclosing function) every element was dropped exactly once
NoDoubleDrop == \A q \in 1..n : led.din[q] <= 1 /\ led.dout[q] <= 1
CompletedNoLeak == form = "map_byval" /\ pc \in {"finished", "left"} =>
                      /\ \A q \in 1..n : led.din[q] = 1
                      /\ \A q \in 1..pushed : led.dout[q] = 1

\* how a run ends, as the generated programs can observe it
Ending == CASE pc \in {"returned", "finished"} -> "value" [] pc = "panicked" -> "panic" [] pc = "left" -> "left"
            [] spins >= 1 -> "loop" [] OTHER -> "running"
=============================================================================
