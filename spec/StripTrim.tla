----------------------------- MODULE StripTrim ------------------------------
(***************************************************************************)
(* C05: starts_with / ends_with / strip_prefix / strip_suffix,             *)
(* trim_start_matches / trim_end_matches / trim_matches and ASCII          *)
(* whitespace trimming, for string:: and the slice::bytes_* twins.         *)
(*                                                                         *)
(*  R : declarative (prefix test; maximal number of whole repetitions;     *)
(*      std's is_ascii_whitespace set {9,10,12,13,32}).                    *)
(*  M : the loops of the code.  `this` is the window [lo,hi) of s.         *)
(*      strip:  impl_bytes_function! (length pre-check, lock-step loop)    *)
(*      trimm:  __bytes_trim_{start,end}_matches (outer loop remembers     *)
(*              at_start, first byte must match, inner loop consumes the   *)
(*              rest or rolls back to at_start)                            *)
(*      space:  bytes_trim_{start,end} one byte per iteration;             *)
(*              bytes_trim = trim_start(trim_end(this))                    *)
(***************************************************************************)
EXTENDS Common, Utf8, StripTrimRef, TLC

CONSTANTS Inputs        \* set of <<s, n>> pairs (n ignored by the whitespace ops)

PatOps   == {"starts_with", "ends_with", "strip_prefix", "strip_suffix",
             "trim_start_matches", "trim_end_matches", "trim_matches"}
SpaceOps == {"trim", "trim_start", "trim_end"}
Ops      == PatOps \cup SpaceOps

-----------------------------------------------------------------------------
(* R *)
\* StripPrefix, TrimStartM, TrimWs, ...: see StripTrimRef.tla
\* Both-ends pattern trimming is only specified where the order of the two ends is immaterial
\* (std offers trim_matches only for such patterns).
Specified(op, s, n) ==
    op = "trim_matches" => TrimEndM(TrimStartM(s, n), n) = TrimStartM(TrimEndM(s, n), n)

Ref(op, s, n) ==
    CASE op = "starts_with"  -> IsPrefixOf(n, s)
      [] op = "ends_with"    -> IsSuffixOf(n, s)
      [] op = "strip_prefix" -> StripPrefix(s, n)
      [] op = "strip_suffix" -> StripSuffix(s, n)
      [] op = "trim_start_matches" -> TrimStartM(s, n)
      [] op = "trim_end_matches"   -> TrimEndM(s, n)
      [] op = "trim_matches"       -> TrimEndM(TrimStartM(s, n), n)
      [] op = "trim_start" -> TrimStartWs(s)
      [] op = "trim_end"   -> TrimEndWs(s)
      [] op = "trim"       -> TrimWs(s)

-----------------------------------------------------------------------------
(* M *)
VARIABLES op, s, n, lo, hi, k, at, side, pc, res
vars == <<op, s, n, lo, hi, k, at, side, pc, res>>

Init == /\ op \in Ops
        /\ \E in \in Inputs : s = in[1] /\ n = IF op \in SpaceOps THEN <<>> ELSE in[2]
        /\ lo = 0 /\ hi = Len(s) /\ k = 0 /\ at = 0 /\ side = "start" /\ pc = "start" /\ res = None

Window == Slice(s, lo, hi)

Start ==
    /\ pc = "start"
    /\ UNCHANGED <<op, s, n, lo, hi, k, at, res>>
    /\ CASE op \in {"starts_with", "strip_prefix"} -> side' = "start" /\ pc' = "strip"
         [] op \in {"ends_with", "strip_suffix"}   -> side' = "end" /\ pc' = "strip"
         [] op \in {"trim_start_matches", "trim_matches"} -> side' = "start" /\ pc' = "trimm"
         [] op = "trim_end_matches" -> side' = "end" /\ pc' = "trimm"
         [] op = "trim_start" -> side' = "start" /\ pc' = "space"
         [] op \in {"trim_end", "trim"} -> side' = "end" /\ pc' = "space"

Fail == res' = (IF op \in {"starts_with", "ends_with"} THEN FALSE ELSE None) /\ pc' = "done"

\* impl_bytes_function!{strip_prefix | strip_suffix}
StripCheck ==
    /\ pc = "strip"
    /\ UNCHANGED <<op, s, n, at, side>>
    /\ IF Len(s) < Len(n) THEN Fail /\ UNCHANGED <<lo, hi, k>>
       ELSE pc' = "striploop" /\ UNCHANGED <<lo, hi, k, res>>

StripStep ==
    /\ pc = "striploop"
    /\ UNCHANGED <<op, s, n, at, side>>
    /\ IF k = Len(n) \/ lo = hi
       THEN /\ res' = IF op \in {"starts_with", "ends_with"} THEN TRUE ELSE Some(Window)
            /\ pc' = "done" /\ UNCHANGED <<lo, hi, k>>
       ELSE IF side = "start"
            THEN /\ lo' = lo + 1 /\ k' = k + 1 /\ UNCHANGED hi
                 /\ IF s[lo + 1] # n[k + 1] THEN Fail ELSE UNCHANGED <<pc, res>>
            ELSE /\ hi' = hi - 1 /\ k' = k + 1 /\ UNCHANGED lo
                 /\ IF s[hi] # n[Len(n) - k] THEN Fail ELSE UNCHANGED <<pc, res>>

\* end of one side of a trim: return, or continue with the other end
SideDone(nlo, nhi) ==
    IF op = "trim_matches" /\ side = "start"
    THEN lo' = nlo /\ hi' = nhi /\ side' = "end" /\ pc' = "trimm" /\ k' = 0 /\ UNCHANGED res
    ELSE IF op = "trim" /\ side = "end"
    THEN lo' = nlo /\ hi' = nhi /\ side' = "start" /\ pc' = "space" /\ k' = 0 /\ UNCHANGED res
    ELSE lo' = nlo /\ hi' = nhi /\ res' = Slice(s, nlo, nhi) /\ pc' = "done" /\ UNCHANGED <<side, k>>

\* __bytes_trim_{start,end}_matches: entry + outer loop head
TrimOuter ==
    /\ pc = "trimm"
    /\ UNCHANGED <<op, s, n>>
    /\ IF n = <<>> THEN SideDone(lo, hi) /\ UNCHANGED at
       ELSE /\ at' = IF side = "start" THEN lo ELSE hi
            /\ IF lo < hi /\ (IF side = "start" THEN s[lo + 1] = n[1] ELSE s[hi] = n[Len(n)])
               THEN /\ IF side = "start" THEN lo' = lo + 1 /\ UNCHANGED hi ELSE hi' = hi - 1 /\ UNCHANGED lo
                    /\ k' = 1 /\ pc' = "triminner" /\ UNCHANGED <<side, res>>
               ELSE SideDone(lo, hi)

TrimInner ==
    /\ pc = "triminner"
    /\ UNCHANGED <<op, s, n, at>>
    /\ IF k = Len(n) THEN pc' = "trimm" /\ k' = 0 /\ UNCHANGED <<lo, hi, side, res>>
       ELSE IF lo = hi
       THEN (IF side = "start" THEN SideDone(at, hi) ELSE SideDone(lo, at))      \* rollback to at_start
       ELSE IF (IF side = "start" THEN s[lo + 1] = n[k + 1] ELSE s[hi] = n[Len(n) - k])
       THEN /\ IF side = "start" THEN lo' = lo + 1 /\ UNCHANGED hi ELSE hi' = hi - 1 /\ UNCHANGED lo
            /\ k' = k + 1 /\ UNCHANGED <<side, pc, res>>
       ELSE (IF side = "start" THEN SideDone(at, hi) ELSE SideDone(lo, at))

\* matches_space! in the code; std's set also contains form feed (12)
IsSpaceImpl(b) == b \in {9, 10, 12, 13, 32}

SpaceStep ==
    /\ pc = "space"
    /\ UNCHANGED <<op, s, n, at>>
    /\ IF lo < hi /\ IsSpaceImpl(IF side = "start" THEN s[lo + 1] ELSE s[hi])
       THEN /\ IF side = "start" THEN lo' = lo + 1 /\ UNCHANGED hi ELSE hi' = hi - 1 /\ UNCHANGED lo
            /\ UNCHANGED <<k, side, pc, res>>
       ELSE SideDone(lo, hi)

Next == Start \/ StripCheck \/ StripStep \/ TrimOuter \/ TrimInner \/ SpaceStep
Spec == Init /\ [][Next]_vars

-----------------------------------------------------------------------------
TypeOK == /\ 0 <= lo /\ lo <= hi /\ hi <= Len(s) /\ k \in 0..Len(n)
          /\ pc \in {"start", "strip", "striploop", "trimm", "triminner", "space", "done"}

Refines == pc = "done" /\ Specified(op, s, n) => res = Ref(op, s, n)

\* C01: the window handed to from_utf8_unchecked is a str whenever haystack and needle are
HasWindow == \/ op \in {"strip_prefix", "strip_suffix"} /\ IsSome(res)
             \/ op \notin {"starts_with", "ends_with", "strip_prefix", "strip_suffix"}
Utf8Safe == pc = "done" /\ HasWindow /\ ValidUtf8(s) /\ ValidUtf8(n) => Utf8Cut(s, lo, hi - lo)
=============================================================================
