------------------------------- MODULE IterDsl -------------------------------
(***************************************************************************)
(* C10: the iterator DSL of konst::iter::{eval!, for_each!, collect_const!}. *)
(*                                                                          *)
(* A *chain* is a sequence of adapters followed by one consumer.  Items are *)
(* naturals or nested pairs (enumerate / zip add a layer); a static item    *)
(* type [k |-> "u"] | [k |-> "p", l, r] is tracked per position, closures   *)
(* come from a fixed library and act on Key(item), an injective-enough      *)
(* scalarisation (31*Key(l) + Key(r) + 7 for pairs).                        *)
(*                                                                          *)
(*  R  : Std(chain, input) — the std Iterator chain as functions on         *)
(*       sequences, with the two documented exceptions (enumerate numbers   *)
(*       in iteration order, rposition counts from the back).  Only chains  *)
(*       that std's trait bounds accept (StdOK: DoubleEnded / ExactSize     *)
(*       capabilities per adapter) and konst accepts (at most one           *)
(*       reversing method) are in the comparison domain.                    *)
(*  M  : the loop the macros generate: a pre-pass decides that the *source* *)
(*       is pulled with next_back when any reversing method occurs; one     *)
(*       loop (plus a nested loop per flat_map / flatten) pushes each       *)
(*       pulled item through the adapters, which keep hoisted counters      *)
(*       (take/skip: rem, enumerate: i, skip_while: flag, zip: the other    *)
(*       iterator with the direction in force at that position) and answer  *)
(*       emit / continue / break; the consumer folds the emitted items.     *)
(*  KnownShape : take / skip / zip before a reversing method — there M      *)
(*       (hoisted rev) legitimately differs from R (known finding F8).      *)
(***************************************************************************)
EXTENDS Common, TLC

U == [k |-> "u"]
P(a, b) == [k |-> "p", l |-> a, r |-> b]

RECURSIVE Key(_, _)
Key(ty, v) == IF ty.k = "u" THEN v ELSE 31 * Key(ty.l, v[1]) + Key(ty.r, v[2]) + 7

\* closure library (all act on the key)
Even(x)    == x % 2 = 0
Lt2(x)     == x < 2
Lt3(x)     == x < 3
OptThird(x) == IF x % 3 = 0 THEN None ELSE Some(x)           \* filter_map / find_map
PairRange(x) == <<x, x + 1>>                                   \* flat_map: the range x..x+2
ZipOther == <<10, 20, 30>>                                     \* zip(&[10,20,30]) / zip(10..) prefix

\* adapters: [k |-> kind, n |-> numeric argument]
Ad(k, n) == [k |-> k, n |-> n]
Reversing(c) == c \in {"rfind", "rfold", "rposition"}

-----------------------------------------------------------------------------
(* item type after each adapter *)
TyAfter(ty, a) == CASE a.k = "enumerate" -> P(U, ty)
                    [] a.k = "zip" -> P(ty, U)
                    [] a.k \in {"map", "map_s", "filter_map", "flat_map", "flatten"} -> U
                    [] OTHER -> ty
RECURSIVE TyAt(_, _, _)
TyAt(ty, chain, q) == IF q = 0 THEN ty ELSE TyAfter(TyAt(ty, chain, q - 1), chain[q])
TyEnd(chain) == TyAt(U, chain, Len(chain))

-----------------------------------------------------------------------------
(* std's typing judgment: DoubleEnded / ExactSize capabilities after each adapter *)
Cap(de, es) == [de |-> de, es |-> es]
CapAfter(c, a) ==
    CASE a.k \in {"map", "map_s", "rev"} -> c
      [] a.k \in {"filter", "filter_map", "flat_map", "flatten"} -> Cap(c.de, FALSE)
      [] a.k \in {"enumerate", "take", "skip", "zip"} -> Cap(c.de /\ c.es, c.es)
      [] a.k \in {"take_while", "skip_while"} -> Cap(FALSE, FALSE)
RECURSIVE CapAt(_, _)
CapAt(chain, q) == IF q = 0 THEN Cap(TRUE, TRUE) ELSE CapAfter(CapAt(chain, q - 1), chain[q])

StdOK(chain, cons) ==
    /\ \A q \in 1..Len(chain) : chain[q].k = "rev" => CapAt(chain, q - 1).de
    /\ cons \in {"rfind", "rfold"} => CapAt(chain, Len(chain)).de
    /\ cons = "rposition" => CapAt(chain, Len(chain)).de /\ CapAt(chain, Len(chain)).es
\* konst: at most one reversing method
NRev(chain, cons) == Cardinality({q \in 1..Len(chain) : chain[q].k = "rev"}) + (IF Reversing(cons) THEN 1 ELSE 0)
KonstOK(chain, cons) == NRev(chain, cons) <= 1
\* flat_map / filter_map / map closures take scalars in the generated programs: they may follow any item type
InDomain(chain, cons) == StdOK(chain, cons) /\ KonstOK(chain, cons)

\* known finding F8: take / skip / zip at a position before a reversing method
RevAfter(chain, cons, q) == (\E p \in (q + 1)..Len(chain) : chain[p].k = "rev") \/ Reversing(cons)
KnownShape(chain, cons) == \E q \in 1..Len(chain) : chain[q].k \in {"take", "skip", "zip"} /\ RevAfter(chain, cons, q)

-----------------------------------------------------------------------------
(* R: std on sequences *)
RECURSIVE FilterSeq(_, _)
FilterSeq(ty, s) == IF s = <<>> THEN <<>>
                    ELSE (IF Even(Key(ty, Head(s))) THEN <<Head(s)>> ELSE <<>>) \o FilterSeq(ty, Tail(s))
RECURSIVE TakeWhileSeq(_, _), SkipWhileSeq(_, _), FilterMapSeq(_, _), FlatMapSeq(_, _)
TakeWhileSeq(ty, s) == IF s = <<>> \/ ~Lt3(Key(ty, Head(s))) THEN <<>> ELSE <<Head(s)>> \o TakeWhileSeq(ty, Tail(s))
SkipWhileSeq(ty, s) == IF s # <<>> /\ Lt2(Key(ty, Head(s))) THEN SkipWhileSeq(ty, Tail(s)) ELSE s
FilterMapSeq(ty, s) == IF s = <<>> THEN <<>>
                       ELSE (IF IsSome(OptThird(Key(ty, Head(s)))) THEN <<Key(ty, Head(s))>> ELSE <<>>) \o FilterMapSeq(ty, Tail(s))
FlatMapSeq(ty, s)   == IF s = <<>> THEN <<>> ELSE PairRange(Key(ty, Head(s))) \o FlatMapSeq(ty, Tail(s))

\* one adapter applied to the sequence s of items of type ty; revLater: a reversing method follows
StdStep(ty, s, a, revLater) ==
    CASE a.k = "enumerate" -> [q \in 1..Len(s) |-> <<IF revLater THEN Len(s) - q ELSE q - 1, s[q]>>]   \* iteration order
      [] a.k = "filter"     -> FilterSeq(ty, s)
      [] a.k = "filter_map" -> FilterMapSeq(ty, s)
      [] a.k = "flat_map"   -> FlatMapSeq(ty, s)
      \* "flatten" stands for the two DSL tokens `map(|x| k..k+2), flatten()`: flatten needs iterable items, and the
      \* ranges produced by that map are the only iterable items of the closure library
      [] a.k = "flatten"    -> FlatMapSeq(ty, s)
      [] a.k = "map"        -> [q \in 1..Len(s) |-> Key(ty, s[q]) + a.n]
      \* a closure with state: `|x| { cnt += 1; key * 10 + cnt }` - std calls it once per element in iteration order
      \* (so a reversing method later numbers from the back, exactly as for enumerate)
      [] a.k = "map_s"      -> [q \in 1..Len(s) |-> Key(ty, s[q]) * 10 + (IF revLater THEN Len(s) - q + 1 ELSE q)]
      [] a.k = "rev"        -> ReverseSeq(s)
      [] a.k = "skip"       -> SubSeq(s, a.n + 1, Len(s))
      [] a.k = "skip_while" -> SkipWhileSeq(ty, s)
      [] a.k = "take"       -> SubSeq(s, 1, MinOf(a.n, Len(s)))
      [] a.k = "take_while" -> TakeWhileSeq(ty, s)
      [] a.k = "zip"        -> [q \in 1..MinOf(Len(s), Len(ZipOther)) |-> <<s[q], ZipOther[q]>>]

RECURSIVE StdSeq(_, _, _, _)
StdSeq(chain, cons, q, src) ==
    IF q = 0 THEN src
    ELSE StdStep(TyAt(U, chain, q - 1), StdSeq(chain, cons, q - 1, src), chain[q], RevAfter(chain, cons, q))

\* consumers on the final sequence s (items of type ty); all results are scalarised with Key
Keys(ty, s) == [q \in 1..Len(s) |-> Key(ty, s[q])]
RECURSIVE FoldL(_, _)
FoldL(acc, ks) == IF ks = <<>> THEN acc ELSE FoldL((acc * 3 + Head(ks)) % 1000003, Tail(ks))
FirstIdx(ks, pr(_)) == IF \E q \in 1..Len(ks) : pr(ks[q]) THEN Some(SetMin({q \in 1..Len(ks) : pr(ks[q])}) - 1) ELSE None
FirstVal(ks, pr(_)) == IF \E q \in 1..Len(ks) : pr(ks[q]) THEN Some(ks[SetMin({q \in 1..Len(ks) : pr(ks[q])})]) ELSE None
IsSomeThird(x) == IsSome(OptThird(x))

Consume(cons, n, ks) ==
    CASE cons \in {"for_each", "collect"} -> ks
      [] cons = "all"      -> \A q \in 1..Len(ks) : Even(ks[q])
      [] cons = "any"      -> \E q \in 1..Len(ks) : Even(ks[q])
      [] cons = "count"    -> Len(ks)
      [] cons = "find"     -> FirstVal(ks, Even)
      [] cons = "find_map" -> FirstVal(ks, IsSomeThird)
      [] cons = "rfind"    -> FirstVal(ReverseSeq(ks), Even)
      [] cons = "fold"     -> FoldL(1, ks)
      [] cons = "rfold"    -> FoldL(1, ReverseSeq(ks))
      [] cons = "next"     -> IF ks = <<>> THEN None ELSE Some(ks[1])
      [] cons = "nth"      -> IF n < Len(ks) THEN Some(ks[n + 1]) ELSE None
      \* the same consumer with the arguments 0 and 4 (the descriptor's n is the argument of plain "nth")
      [] cons = "nth0"     -> IF ks = <<>> THEN None ELSE Some(ks[1])
      [] cons = "nth4"     -> IF 4 < Len(ks) THEN Some(ks[5]) ELSE None
      [] cons = "position" -> FirstIdx(ks, Even)
      [] cons = "rposition" -> FirstIdx(ReverseSeq(ks), Even)        \* documented: counts from the back

Std(chain, cons, n, src) == Consume(cons, n, Keys(TyEnd(chain), StdSeq(chain, cons, Len(chain), src)))

-----------------------------------------------------------------------------
(* Sources.  The chain starts from a value that `into_iter!` turns into an iterator; the abstract input is
   the sequence it yields.  Each kind goes through its own ConstIntoIter impl (IsStdKind for slices, array
   references and ranges; IsIteratorKind for konst's own iterator structs), and each can denote only some
   sequences:  a range only ascending runs, repeat(v) followed by take(k) only constant ones, chars of a
   string literal (followed by `map(|c| c as u64)`) only ASCII scalars.  Whatever the source kind, the
   chain must produce Std(chain, ..) of the denoted sequence. *)
\* user_into: a user type with Kind = IsIntoIterKind and a const_into_iter method; user_iter: a user-defined
\* iterator struct (Kind = IsIteratorKind) with its own next / next_back / rev / copy
SourceKinds == {"slice", "slice_ref", "array", "array_ref_ref", "iter_copied", "range", "range_incl", "chars", "repeat_take", "user_into", "user_iter"}
Contiguous(s) == \A q \in 1..(Len(s) - 1) : s[q + 1] = s[q] + 1
Denotes(kind, s) ==
    CASE kind \in {"range", "range_incl"} -> Contiguous(s)
      [] kind = "repeat_take" -> s # <<>> /\ \A q \in 1..Len(s) : s[q] = s[1]
      [] kind = "chars" -> \A q \in 1..Len(s) : s[q] < 128
      [] OTHER -> TRUE

-----------------------------------------------------------------------------
(* M: the generated loop machine *)
SrcBack(chain, cons) == NRev(chain, cons) >= 1
\* direction in force at position q (1-based, before adapter q runs): the source's, flipped by every rev before q
RevsBefore(chain, q) == Cardinality({p \in 1..(q - 1) : chain[p].k = "rev"})
BackAt(chain, cons, q) == (SrcBack(chain, cons) /\ RevsBefore(chain, q) % 2 = 0)
                            \/ (~SrcBack(chain, cons) /\ RevsBefore(chain, q) % 2 = 1)

\* hoisted counters, one per adapter position (0 where unused)
Ctr0(chain) == [q \in 1..Len(chain) |->
                  CASE chain[q].k \in {"take", "skip"} -> chain[q].n
                    [] chain[q].k = "skip_while" -> 1            \* still_skipping = true
                    [] OTHER -> 0]                                \* enumerate: i = 0, zip: items taken so far

\* Push one item through adapters q..end.  Result: [ctr, outs (emitted final items), brk (break 'outer)]
RECURSIVE Pipe(_, _, _, _, _, _), PipeMany(_, _, _, _, _, _)
Pipe(chain, cons, q, ty, item, ctr) ==
    IF q > Len(chain) THEN [ctr |-> ctr, outs |-> <<item>>, brk |-> FALSE]
    ELSE LET a == chain[q] kk == Key(ty, item) nt == TyAfter(ty, a) IN
    CASE a.k = "rev" -> Pipe(chain, cons, q + 1, nt, item, ctr)
      [] a.k = "map" -> Pipe(chain, cons, q + 1, nt, kk + a.n, ctr)
      [] a.k = "map_s" -> Pipe(chain, cons, q + 1, nt, kk * 10 + ctr[q] + 1, [ctr EXCEPT ![q] = ctr[q] + 1])
      [] a.k = "filter" -> IF Even(kk) THEN Pipe(chain, cons, q + 1, nt, item, ctr)
                           ELSE [ctr |-> ctr, outs |-> <<>>, brk |-> FALSE]                       \* continue
      [] a.k = "filter_map" -> IF IsSome(OptThird(kk)) THEN Pipe(chain, cons, q + 1, nt, kk, ctr)
                               ELSE [ctr |-> ctr, outs |-> <<>>, brk |-> FALSE]
      [] a.k = "take_while" -> IF Lt3(kk) THEN Pipe(chain, cons, q + 1, nt, item, ctr)
                               ELSE [ctr |-> ctr, outs |-> <<>>, brk |-> TRUE]                    \* break 'outer
      [] a.k = "take" -> IF ctr[q] = 0 THEN [ctr |-> ctr, outs |-> <<>>, brk |-> TRUE]
                         ELSE Pipe(chain, cons, q + 1, nt, item, [ctr EXCEPT ![q] = ctr[q] - 1])
      [] a.k = "skip" -> IF ctr[q] # 0 THEN [ctr |-> [ctr EXCEPT ![q] = ctr[q] - 1], outs |-> <<>>, brk |-> FALSE]
                         ELSE Pipe(chain, cons, q + 1, nt, item, ctr)
      [] a.k = "skip_while" -> LET still == ctr[q] = 1 /\ Lt2(kk) IN
                               IF still THEN [ctr |-> ctr, outs |-> <<>>, brk |-> FALSE]
                               ELSE Pipe(chain, cons, q + 1, nt, item, [ctr EXCEPT ![q] = 0])
      [] a.k = "enumerate" -> Pipe(chain, cons, q + 1, nt, <<ctr[q], item>>, [ctr EXCEPT ![q] = ctr[q] + 1])
      [] a.k = "zip" ->
            \* the other iterator is pulled with the direction in force at this position
            IF ctr[q] >= Len(ZipOther) THEN [ctr |-> ctr, outs |-> <<>>, brk |-> TRUE]
            ELSE LET o == IF BackAt(chain, cons, q) THEN ZipOther[Len(ZipOther) - ctr[q]] ELSE ZipOther[ctr[q] + 1] IN
                 Pipe(chain, cons, q + 1, nt, <<item, o>>, [ctr EXCEPT ![q] = ctr[q] + 1])
      [] a.k \in {"flat_map", "flatten"} ->
            \* nested loop over the inner iterator, pulled with the direction in force here
            LET inner == IF BackAt(chain, cons, q) THEN ReverseSeq(PairRange(kk)) ELSE PairRange(kk) IN
            PipeMany(chain, cons, q + 1, nt, inner, ctr)
PipeMany(chain, cons, q, ty, items, ctr) ==
    IF items = <<>> THEN [ctr |-> ctr, outs |-> <<>>, brk |-> FALSE]
    ELSE LET r == Pipe(chain, cons, q, ty, Head(items), ctr) IN
         IF r.brk THEN r
         ELSE LET rest == PipeMany(chain, cons, q, ty, Tail(items), r.ctr) IN
              [ctr |-> rest.ctr, outs |-> r.outs \o rest.outs, brk |-> rest.brk]

\* all items the loop hands to the consumer, in order (the source pulled front or back)
Emitted(chain, cons, src) ==
    PipeMany(chain, cons, 1, U, IF SrcBack(chain, cons) THEN ReverseSeq(src) ELSE src, Ctr0(chain)).outs

\* the consumers of the loop machine see the items in iteration order (rfind/rfold/rposition are find/fold/position
\* on the reversed stream)
ConsumeM(cons, n, ks) ==
    CASE cons = "rfind"     -> FirstVal(ks, Even)
      [] cons = "rfold"     -> FoldL(1, ks)
      [] cons = "rposition" -> FirstIdx(ks, Even)
      [] OTHER -> Consume(cons, n, ks)

Model(chain, cons, n, src) == ConsumeM(cons, n, Keys(TyEnd(chain), Emitted(chain, cons, src)))
=============================================================================
