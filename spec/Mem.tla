---------------------------------- MODULE Mem ----------------------------------
(***************************************************************************)
(* Ghost memory cells behind the thin safe wrappers of konst::maybe_uninit, *)
(* konst::manually_drop and konst::ptr (C01 anchors; growth beyond the      *)
(* listed per-module properties).                                           *)
(*                                                                          *)
(* State: an array of N MaybeUninit slots ("U" = uninitialised, or the id   *)
(* of the value written), one ManuallyDrop cell, and the ledger of every    *)
(* value created (Live / Overwritten-without-drop / Taken).                 *)
(* Actions = the wrappers:                                                  *)
(*   Write(i)      maybe_uninit::write(&mut slot, v) — initialises the slot *)
(*                 and returns &mut to it (an old value is NOT dropped)     *)
(*   PtrWrite(i)   maybe_uninit::as_mut_ptr(&mut slot) then ptr::write      *)
(*   MdSet         manually_drop::as_inner_mut(&mut md) = new value         *)
(*   Finish        all slots initialised: array_assume_init (its unsafe     *)
(*                 precondition is the invariant AssumePre)                 *)
(* Observations: as_inner(&md), the value behind the reference `write`      *)
(* returns, the array after assume_init, NonNull round trips.               *)
(***************************************************************************)
EXTENDS Common, TLC
CONSTANTS N, MaxVals

VARIABLES slots, md, nextv, lost, pc, hist
vars == <<slots, md, nextv, lost, pc, hist>>
View == <<slots, md, nextv, lost, pc>>

Init == /\ slots = [q \in 1..N |-> 0]        \* 0 = uninitialised, else the id of the value stored
        /\ md = 1 /\ nextv = 2 /\ lost = {} /\ pc = "open" /\ hist = <<>>

Write(i, how) ==
    /\ pc = "open" /\ nextv <= MaxVals
    /\ slots' = [slots EXCEPT ![i] = nextv]
    \* MaybeUninit never drops what it held: an overwritten value is leaked (not dropped twice, not read)
    /\ lost' = IF slots[i] # 0 THEN lost \cup {slots[i]} ELSE lost
    /\ nextv' = nextv + 1 /\ hist' = Append(hist, [op |-> how, i |-> i]) /\ UNCHANGED <<md, pc>>
MdSet ==
    /\ pc = "open" /\ nextv <= MaxVals
    \* `*as_inner_mut(&mut md) = v` drops the old inner value by ordinary assignment
    /\ md' = nextv /\ nextv' = nextv + 1 /\ hist' = Append(hist, [op |-> "md_set", i |-> 0]) /\ UNCHANGED <<slots, lost, pc>>
Finish ==
    /\ pc = "open" /\ \A q \in 1..N : slots[q] # 0
    /\ pc' = "assumed" /\ hist' = Append(hist, [op |-> "assume_init", i |-> 0]) /\ UNCHANGED <<slots, md, nextv, lost>>

Next == (\E i \in 1..N : Write(i, "write") \/ Write(i, "ptr_write")) \/ MdSet \/ Finish
Spec == Init /\ [][Next]_vars

\* precondition of array_assume_init
AssumePre == pc = "assumed" => \A q \in 1..N : slots[q] # 0
\* every value is in exactly one place: a slot, the ManuallyDrop cell, dropped by assignment, or leaked by overwrite
Places == {slots[q] : q \in {x \in 1..N : slots[x] # 0}} \cup {md} \cup lost
NoDup == \A p, q \in 1..N : p # q /\ slots[p] # 0 => slots[p] # slots[q]
=============================================================================
