SPECIFICATION TraceSpec
CONSTANTS
  Strs <- NoSet
  Extra <- NoSet
INVARIANTS Refines UnsafePre
CONSTRAINT Progress
POSTCONDITION Accepted
CHECK_DEADLOCK FALSE
