---------------------------- MODULE Trace_Matcher ----------------------------
(***************************************************************************)
(* impl -> spec: every recorded call of the real search functions          *)
(* (event = op, haystack, needle, returned value) must be explained by a   *)
(* run of the Matcher machine: the machine is loaded with the logged       *)
(* arguments, runs its own actions silently to "done", and the event is    *)
(* consumed only if the machine's result equals the logged result.         *)
(* The invariants of Matcher (Refines: machine = reference) are evaluated  *)
(* at every state, on inputs far larger than the exhaustive bounds.        *)
(***************************************************************************)
EXTENDS Matcher, Json, IOUtils

Rec == ndJsonDeserialize(IOEnv.TRACE)
NoStrings == {}

VARIABLE l      \* number of events consumed
tvars == <<vars, l>>

Load(k) == /\ op' = Rec[k].ev /\ h' = Rec[k].h /\ n' = Rec[k].n
           /\ i' = 0 /\ j' = 0 /\ off' = None /\ pc' = "start" /\ res' = None

TraceInit == /\ l = 0
             /\ IF Len(Rec) = 0
                THEN op = "find" /\ h = <<>> /\ n = <<>> /\ pc = "end"
                ELSE op = Rec[1].ev /\ h = Rec[1].h /\ n = Rec[1].n /\ pc = "start"
             /\ i = 0 /\ j = 0 /\ off = None /\ res = None

Consume == /\ pc = "done" /\ l < Len(Rec)
           /\ res = Rec[l + 1].ret
           /\ l' = l + 1
           /\ IF l + 2 <= Len(Rec) THEN Load(l + 2)
              ELSE pc' = "end" /\ UNCHANGED <<op, h, n, i, j, off, res>>

TraceNext == (Next /\ UNCHANGED l) \/ Consume
TraceSpec == TraceInit /\ [][TraceNext]_tvars

TraceTypeOK == pc \in {"start", "scan", "advance", "finish", "shortcut", "done", "end"}

\* highest number of consumed events, kept in a TLC register (single worker)
Progress == TLCSet(1, l)
Accepted == LET k == TLCGet(1) IN
            IF k = Len(Rec) THEN TRUE
            ELSE Print(<<"TRACE-REJECTED at event", k + 1, Rec[k + 1]>>, FALSE)
=============================================================================
