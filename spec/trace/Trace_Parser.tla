---------------------------- MODULE Trace_Parser ----------------------------
(***************************************************************************)
(* impl -> spec for C13/C14: long random histories recorded from the real  *)
(* Parser.  Every event is one public call (arguments, Ok/Err, returned    *)
(* value, projected state after the call); it is accepted only if the      *)
(* Parser.tla action for that method is enabled and produces exactly the   *)
(* logged state / value / error.  The Parser invariants are evaluated at   *)
(* every state of the recorded history.                                    *)
(***************************************************************************)
EXTENDS Parser, Json, IOUtils

Rec == ndJsonDeserialize(IOEnv.TRACE)
NoSet == {}
TrPats   == {<<97>>, <<195, 177>>, <<44>>, <<97, 44>>, <<32>>, <<97, 98>>}
TrSkips  == {0, 1, 2, 3, 50}

VARIABLE l
tvars == <<vars, l>>

TraceInit == /\ l = 0 /\ orig = <<>> /\ base = 0 /\ lo = 0 /\ hi = 0 /\ so = 0 /\ dir = "S"
             /\ yls = FALSE /\ hist = <<>>

IsEv(k) == l < Len(Rec) /\ k /\ l' = l + 1
R == Rec[l + 1]

TrInit == /\ l < Len(Rec) /\ R.ev = "init" /\ l' = l + 1
          /\ orig' = R.s /\ base' = R.base /\ lo' = 0 /\ hi' = Len(R.s) /\ so' = R.base
          /\ dir' = "S" /\ yls' = FALSE /\ hist' = <<>>

TrOk == /\ l < Len(Rec) /\ R.ev # "init" /\ R.ok = 1 /\ l' = l + 1
        /\ LET o == MkOp(R.ev, R.p, R.n)
               e == Effect(o, Rem, yls)
           IN /\ Do(o)
              /\ lo' = R.st.lo /\ hi' = R.st.hi /\ so' = R.st.so /\ dir' = R.st.dir
              /\ R.st.eo = so' + (hi' - lo')
              /\ Returns(o.op) => e.ret = R.ret

TrErr == /\ l < Len(Rec) /\ R.ev # "init" /\ R.ok = 0 /\ l' = l + 1
         /\ LET o == MkOp(R.ev, R.p, R.n)
                e == Effect(o, Rem, yls)
            IN /\ ~e.ok
               /\ ErrOf(o, e).off = R.off /\ ErrOf(o, e).dir = R.dir
               /\ o.op \in {"split", "rsplit"} => e.kind = R.kind
         /\ UNCHANGED vars

TraceNext == TrInit \/ TrOk \/ TrErr
TraceSpec == TraceInit /\ [][TraceNext]_tvars

Progress == TLCSet(1, l)
Accepted == LET c == TLCGet(1) IN
            IF c = Len(Rec) THEN TRUE
            ELSE Print(<<"TRACE-REJECTED at event", c + 1, Rec[c + 1]>>, FALSE)
=============================================================================
