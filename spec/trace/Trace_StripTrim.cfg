SPECIFICATION TraceSpec
CONSTANTS
  Inputs <- NoInputs
INVARIANTS TraceRefines Utf8Safe
CONSTRAINT Progress
POSTCONDITION Accepted
CHECK_DEADLOCK FALSE
