SPECIFICATION TraceSpec
CONSTANTS
  W = 16
  Lens <- NoNat
  ZstLens <- NoNat
  Sizes <- NoNat
  Ns <- NoNat
INVARIANTS UnsafePre Refines SplitDisjoint
CONSTRAINT Progress
POSTCONDITION Accepted
CHECK_DEADLOCK FALSE
