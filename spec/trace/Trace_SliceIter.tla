--------------------------- MODULE Trace_SliceIter ---------------------------
(* impl -> spec for C08: long random front/back/rev histories on slices up to 200 elements. *)
EXTENDS SliceIter, Json, IOUtils

Rec == ndJsonDeserialize(IOEnv.TRACE)
VARIABLE l
tvars == <<vars, l>>
R == Rec[l + 1]

TraceInit == /\ l = 0 /\ kind = "iter" /\ len = 0 /\ n = 1 /\ lo = 0 /\ hi = 0 /\ live = TRUE
             /\ rlo = 0 /\ rhi = 0 /\ fwd = TRUE /\ hist = <<>>

\* `init` re-runs the constructor of the model with the logged arguments
TrInit == /\ l < Len(Rec) /\ R.ev = "init" /\ l' = l + 1
          /\ kind' = R.kind /\ len' = R.len /\ n' = R.n /\ fwd' = TRUE /\ hist' = <<>>
          /\ CASE R.kind \in {"chunks_exact", "array_chunks"} ->
                    /\ lo' = 0 /\ hi' = R.len - (R.len % R.n) /\ rlo' = R.len - (R.len % R.n) /\ rhi' = R.len /\ live' = TRUE
               [] R.kind = "rchunks_exact" ->
                    /\ lo' = R.len % R.n /\ hi' = R.len /\ rlo' = 0 /\ rhi' = R.len % R.n /\ live' = TRUE
               [] R.kind \in {"chunks", "rchunks"} ->
                    /\ lo' = 0 /\ hi' = R.len /\ rlo' = 0 /\ rhi' = 0 /\ live' = (R.len # 0)
               [] OTHER -> lo' = 0 /\ hi' = R.len /\ rlo' = 0 /\ rhi' = 0 /\ live' = TRUE

NormW(w) == IF w[1] = w[2] THEN <<0, 0>> ELSE w
\* as_slice / remainder logged after the step (null for types without such an accessor)
ExtraOK == \/ R.hx = 0
           \/ R.extra = NormW(IF kind \in {"iter", "copied"} THEN <<lo', hi'>> ELSE <<rlo, rhi>>)

TrStep == /\ l < Len(Rec) /\ R.ev \in {"next", "next_back"} /\ l' = l + 1
          /\ LET s == IF R.ev = "next" THEN DoNext ELSE DoNextBack IN
             /\ s.item = R.item
             /\ IF IsSome(s.item)
                THEN lo' = s.lo /\ hi' = s.hi /\ live' = s.live
                ELSE UNCHANGED <<lo, hi, live>>
          /\ hist' = <<>> /\ UNCHANGED <<kind, len, n, rlo, rhi, fwd>>
          /\ ExtraOK

TrRev == /\ l < Len(Rec) /\ R.ev = "rev" /\ l' = l + 1
         /\ fwd' = ~fwd /\ hist' = <<>> /\ UNCHANGED <<kind, len, n, lo, hi, live, rlo, rhi>>

TraceNext == TrInit \/ TrStep \/ TrRev
TraceSpec == TraceInit /\ [][TraceNext]_tvars
Progress == TLCSet(1, l)
Accepted == LET c == TLCGet(1) IN
            IF c = Len(Rec) THEN TRUE
            ELSE Print(<<"TRACE-REJECTED at event", c + 1, Rec[c + 1]>>, FALSE)
=============================================================================
