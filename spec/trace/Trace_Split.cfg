SPECIFICATION TraceSpec
CONSTANTS
  Strs <- NoSet
  Delims <- NoSet
INVARIANTS WindowInv Refines RemainderInv InitialSeqs EndsAgree
CONSTRAINT Progress
POSTCONDITION Accepted
CHECK_DEADLOCK FALSE
