SPECIFICATION TraceSpec
CONSTANTS
  Pairs <- NoSet
INVARIANTS WindowInv Refines RemainderInv InitialSeqs EndsAgree
CONSTRAINT Progress
POSTCONDITION Accepted
CHECK_DEADLOCK FALSE
