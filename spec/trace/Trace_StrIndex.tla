--------------------------- MODULE Trace_StrIndex ---------------------------
(* impl -> spec for C03: recorded calls on random strings (<= 14 chars incl. U+07FF/U+0800/U+FFFF)
   replayed through the StrIndex machine. *)
EXTENDS StrIndex, Json, IOUtils

Rec == ndJsonDeserialize(IOEnv.TRACE)
NoSet == {}

VARIABLE l
tvars == <<vars, l>>

TraceInit == /\ l = 0 /\ Len(Rec) > 0
             /\ op = Rec[1].ev /\ s = Rec[1].s /\ a = Rec[1].a /\ b = Rec[1].b
             /\ stage = 1 /\ win = <<0, 0>> /\ pc = "check" /\ res = None /\ res2 = None /\ pan = FALSE

Load(r) == /\ op' = r.ev /\ s' = r.s /\ a' = r.a /\ b' = r.b
           /\ stage' = 1 /\ win' = <<0, 0>> /\ pc' = "check" /\ res' = None /\ res2' = None /\ pan' = FALSE

Consume == /\ pc = "done" /\ l < Len(Rec)
           /\ Out = Rec[l + 1].ret
           /\ l' = l + 1
           /\ IF l + 2 <= Len(Rec) THEN Load(Rec[l + 2])
              ELSE pc' = "end" /\ UNCHANGED <<op, s, a, b, stage, win, res, res2, pan>>

TraceNext == (Next /\ UNCHANGED l) \/ Consume
TraceSpec == TraceInit /\ [][TraceNext]_tvars

Progress == TLCSet(1, l)
Accepted == LET c == TLCGet(1) IN
            IF c = Len(Rec) THEN TRUE
            ELSE Print(<<"TRACE-REJECTED at event", c + 1, Rec[c + 1]>>, FALSE)
=============================================================================
