SPECIFICATION TraceSpec
CONSTANTS
  Inputs <- NoSet
INVARIANTS Refines UncheckedPre WalkInBounds WalkResult
CONSTRAINT Progress
POSTCONDITION Accepted
CHECK_DEADLOCK FALSE
