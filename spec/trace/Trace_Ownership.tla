--------------------------- MODULE Trace_Ownership ---------------------------
(* impl -> spec for C15: random histories of up to 60 calls on one or two ArrayConsumer / ArrayBuilder values of
   capacity N (5 or 8) with a drop-ledger element type.  Each event is one public call; it is accepted only if
   the Ownership.tla action for that call is enabled and the windows of both containers, the values handed to
   the caller and the exact set of dropped values after the call equal the logged ones. *)
EXTENDS Ownership, Json, IOUtils
Rec == ndJsonDeserialize(IOEnv.TRACE)
VARIABLE l
tvars == <<vars, l>>
R == Rec[l + 1]

TraceInit == /\ l = 0 /\ objs = [nm \in Names |-> NoObj] /\ owner = <<>> /\ handed = <<>> /\ nextid = 1
             /\ clones = 0 /\ err = FALSE /\ hist = <<>> /\ scen = "consumer"

TrInit == /\ l < Len(Rec) /\ R.ev = "init" /\ l' = l + 1
          /\ IF R.scen = "consumer"
             THEN /\ objs' = [nm \in Names |-> IF nm = "a" THEN [kind |-> "consumer", arr |-> [q \in 1..N |-> q], tf |-> 0, tb |-> 0, inited |-> 0] ELSE NoObj]
                  /\ owner' = [id \in 1..N |-> "a"] /\ nextid' = N + 1
             ELSE /\ objs' = [nm \in Names |-> IF nm = "a" THEN [kind |-> "builder", arr |-> [q \in 1..N |-> 0], tf |-> 0, tb |-> 0, inited |-> 0] ELSE NoObj]
                  /\ owner' = <<>> /\ nextid' = 1
          /\ handed' = <<>> /\ clones' = 0 /\ err' = FALSE /\ hist' = <<>> /\ scen' = R.scen

Other(nm) == IF nm = "a" THEN "b" ELSE "a"
Act(op, nm) == CASE op = "next" -> CNext(nm) [] op = "next_back" -> CNextBack(nm) [] op = "next_none" -> CNone(nm)
                 [] op = "clone" -> Clone(nm, Other(nm)) [] op = "clone_from" -> CloneFrom(nm, Other(nm)) [] op = "drop" -> DropObj(nm)
                 [] op = "clone_panic" -> ClonePanic(nm, R.j)
                 [] op = "assert_is_empty" -> CAssertEmpty(nm) [] op = "push" -> BPush(nm) [] op = "build" -> BBuild(nm)

\* the logged projection after the call
ObsOK == /\ objs'["a"].kind = R.a.kind /\ Window(objs'["a"]) = R.a.win
         /\ objs'["b"].kind = R.b.kind /\ Window(objs'["b"]) = R.b.win
         /\ SubSeq(handed', Len(handed) + 1, Len(handed')) = R.handed
         /\ Len(R.dropped) = nextid' - 1
         /\ \A id \in 1..(nextid' - 1) : (R.dropped[id] = 1) <=> (owner'[id] = "dropped")
         /\ \A id \in 1..(nextid' - 1) : R.dropped[id] \in {0, 1}
         /\ R.intact = 1

TrOp == /\ l < Len(Rec) /\ R.ev # "init" /\ l' = l + 1
        /\ Act(R.ev, R.o)
        /\ ObsOK
TraceNext == TrInit \/ TrOp
TraceSpec == TraceInit /\ [][TraceNext]_tvars
Progress == TLCSet(1, l)
Accepted == LET c == TLCGet(1) IN
            IF c = Len(Rec) THEN TRUE
            ELSE Print(<<"TRACE-REJECTED at event", c + 1, Rec[c + 1]>>, FALSE)
=============================================================================
