---------------------------- MODULE Trace_ParseInt ----------------------------
(* impl -> spec for C12: recorded prefix parses of random digit strings (up to 45 digits, near the MAX of
   every width) for all 12 types; each is explained by a run of the ParseInt machine (exact on digit
   sequences, so 64/128-bit values are validated exactly). *)
EXTENDS ParseInt, Json, IOUtils
Rec == ndJsonDeserialize(IOEnv.TRACE)
NoSet == {}
VARIABLE l
tvars == <<vars, l>>

Load(r) == /\ ty' = TypeOf(r.ev) /\ s' = r.s /\ pos' = 0 /\ num' = <<>> /\ neg' = FALSE /\ pc' = "sign" /\ res' = None
TraceInit == /\ l = 0 /\ Len(Rec) > 0 /\ ty = TypeOf(Rec[1].ev) /\ s = Rec[1].s
             /\ pos = 0 /\ num = <<>> /\ neg = FALSE /\ pc = "sign" /\ res = None
Consume == /\ pc = "done" /\ l < Len(Rec)
           /\ LET r == Rec[l + 1] IN
              IF r.ok = 1 THEN res = Some([neg |-> r.neg, mag |-> r.mag, consumed |-> r.consumed]) ELSE res = None
           /\ l' = l + 1
           /\ IF l + 2 <= Len(Rec) THEN Load(Rec[l + 2]) ELSE pc' = "end" /\ UNCHANGED <<ty, s, pos, num, neg, res>>
TraceNext == (Next /\ UNCHANGED l) \/ Consume
TraceSpec == TraceInit /\ [][TraceNext]_tvars
Progress == TLCSet(1, l)
Accepted == LET c == TLCGet(1) IN
            IF c = Len(Rec) THEN TRUE
            ELSE Print(<<"TRACE-REJECTED at event", c + 1, Rec[c + 1]>>, FALSE)
=============================================================================
