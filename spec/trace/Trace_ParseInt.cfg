SPECIFICATION TraceSpec
CONSTANTS
  Inputs <- NoSet
INVARIANTS Refines ReadsInBounds
CONSTRAINT Progress
POSTCONDITION Accepted
CHECK_DEADLOCK FALSE
