----------------------------- MODULE Trace_Chars -----------------------------
(* impl -> spec for C07: random front/back/rev histories of chars / char_indices on strings of
   arbitrary scalar values (incl. every UTF-8 class boundary). *)
EXTENDS Chars, Json, IOUtils
Rec == ndJsonDeserialize(IOEnv.TRACE)
NoSet == {}
VARIABLE l
tvars == <<vars, l>>
R == Rec[l + 1]

TraceInit == /\ l = 0 /\ kind = "chars" /\ s = <<>> /\ lo = 0 /\ hi = 0 /\ so = 0 /\ fwd = TRUE /\ hist = <<>>
TrInit == /\ l < Len(Rec) /\ R.ev = "init" /\ l' = l + 1
          /\ kind' = R.kind /\ s' = R.s /\ lo' = 0 /\ hi' = Len(R.s) /\ so' = 0 /\ fwd' = TRUE /\ hist' = <<>>

AsStrOK == R.hs = 0 \/ R.as_str = Slice(s, lo', hi')
TrStep == /\ l < Len(Rec) /\ R.ev \in {"next", "next_back"} /\ l' = l + 1
          /\ LET st == IF R.ev = "next" THEN DoNext ELSE DoNextBack IN
             /\ IsSome(st.item) <=> R.has = 1
             /\ IsSome(st.item) => /\ st.item.some[2] = R.ch
                                   /\ kind = "char_indices" => st.item.some[1] = R.off
             /\ IF IsSome(st.item) THEN lo' = st.lo /\ hi' = st.hi /\ so' = st.so ELSE UNCHANGED <<lo, hi, so>>
          /\ hist' = <<>> /\ UNCHANGED <<kind, s, fwd>>
          /\ AsStrOK
TrRev == /\ l < Len(Rec) /\ R.ev = "rev" /\ l' = l + 1
         /\ fwd' = ~fwd /\ hist' = <<>> /\ UNCHANGED <<kind, s, lo, hi, so>>
         /\ AsStrOK
TraceNext == TrInit \/ TrStep \/ TrRev
TraceSpec == TraceInit /\ [][TraceNext]_tvars
Progress == TLCSet(1, l)
Accepted == LET c == TLCGet(1) IN
            IF c = Len(Rec) THEN TRUE
            ELSE Print(<<"TRACE-REJECTED at event", c + 1, Rec[c + 1]>>, FALSE)
=============================================================================
