--------------------------- MODULE Trace_StripTrim ---------------------------
(* impl -> spec for C05: each recorded call (op, s, n, returned value) must be explained by a
   run of the StripTrim machine loaded with the logged arguments (see Trace_Matcher). *)
EXTENDS StripTrim, Json, IOUtils

Rec == ndJsonDeserialize(IOEnv.TRACE)
NoInputs == {}

VARIABLE l
tvars == <<vars, l>>

Load(r) == /\ op' = r.ev /\ s' = r.s /\ n' = r.n
           /\ lo' = 0 /\ hi' = Len(r.s) /\ k' = 0 /\ at' = 0 /\ side' = "start" /\ pc' = "start" /\ res' = None

TraceInit == /\ l = 0 /\ Len(Rec) > 0
             /\ op = Rec[1].ev /\ s = Rec[1].s /\ n = Rec[1].n
             /\ lo = 0 /\ hi = Len(s) /\ k = 0 /\ at = 0 /\ side = "start" /\ pc = "start" /\ res = None

Consume == /\ pc = "done" /\ l < Len(Rec)
           /\ res = Rec[l + 1].ret
           /\ l' = l + 1
           /\ IF l + 2 <= Len(Rec) THEN Load(Rec[l + 2])
              ELSE pc' = "end" /\ UNCHANGED <<op, s, n, lo, hi, k, at, side, res>>

TraceNext == (Next /\ UNCHANGED l) \/ Consume
TraceSpec == TraceInit /\ [][TraceNext]_tvars

\* the both-ends order is not specified where the two orders differ
TraceRefines == pc = "done" /\ Specified(op, s, n) => res = Ref(op, s, n)

Progress == TLCSet(1, l)
Accepted == LET c == TLCGet(1) IN
            IF c = Len(Rec) THEN TRUE
            ELSE Print(<<"TRACE-REJECTED at event", c + 1, Rec[c + 1]>>, FALSE)
=============================================================================
