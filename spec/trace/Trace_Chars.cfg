SPECIFICATION TraceSpec
CONSTANTS
  Strs <- NoSet
INVARIANTS WindowInv Refines ScalarInv
CONSTRAINT Progress
POSTCONDITION Accepted
CHECK_DEADLOCK FALSE
