SPECIFICATION TraceSpec
CONSTANTS
  MinV = 0
  MaxV = 1114111
  IsChar = TRUE
  Starts <- NoSet
  Ends <- NoSet
  MaxDepth = 0
INVARIANTS TypeOK Refines
CONSTRAINT Progress
POSTCONDITION Accepted
CHECK_DEADLOCK FALSE
