SPECIFICATION TraceSpec
CONSTANTS
  Origs <- NoSet
  Bases <- NoSet
  Pats <- TrPats
  Delims <- TrPats
  SkipNs <- TrSkips
INVARIANTS OffsetInv WindowInv ErrorInv SplitProtocol Utf8Inv
CONSTRAINT Progress
POSTCONDITION Accepted
CHECK_DEADLOCK FALSE
