SPECIFICATION TraceSpec
CONSTANTS
  N = 5
  MaxClones = 1000000
INVARIANTS NoErr OwnerConsistent NoLeak HandedOnce
CONSTRAINT Progress
POSTCONDITION Accepted
CHECK_DEADLOCK FALSE
