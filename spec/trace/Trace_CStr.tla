------------------------------ MODULE Trace_CStr ------------------------------
(* impl -> spec for C20 (CStr): recorded constructor calls on random byte strings up to 50 bytes; each is
   explained by a run of the CStr machine (scan, decide, pointer walk). *)
EXTENDS CStr, Json, IOUtils
Rec == ndJsonDeserialize(IOEnv.TRACE)
NoSet == {}
VARIABLE l
tvars == <<vars, l>>
Load(r) == op' = r.ev /\ bytes' = r.b /\ i' = 0 /\ pc' = "scan" /\ res' = None /\ walk' = 0
TraceInit == l = 0 /\ Len(Rec) > 0 /\ op = Rec[1].ev /\ bytes = Rec[1].b /\ i = 0 /\ pc = "scan" /\ res = None /\ walk = 0
Consume == /\ pc = "done" /\ l < Len(Rec)
           /\ LET r == Rec[l + 1] IN IF r.ok = 1 THEN res = Some(r.c) ELSE res = None
           /\ l' = l + 1
           /\ IF l + 2 <= Len(Rec) THEN Load(Rec[l + 2]) ELSE pc' = "end" /\ UNCHANGED <<op, bytes, i, res, walk>>
TraceNext == (Next /\ UNCHANGED l) \/ Consume
TraceSpec == TraceInit /\ [][TraceNext]_tvars
Progress == TLCSet(1, l)
Accepted == LET c == TLCGet(1) IN
            IF c = Len(Rec) THEN TRUE ELSE Print(<<"TRACE-REJECTED at event", c + 1, Rec[c + 1]>>, FALSE)
=============================================================================
