SPECIFICATION TraceSpec
CONSTANTS
  MinV <- I16Min
  MaxV = 32767
  IsChar = FALSE
  Starts <- NoSet
  Ends <- NoSet
  MaxDepth = 0
INVARIANTS TypeOK Refines
CONSTRAINT Progress
POSTCONDITION Accepted
CHECK_DEADLOCK FALSE
