-------------------------- MODULE Trace_SliceIndex --------------------------
(* impl -> spec for C02: recorded calls on u16 slices (len <= 200, indices incl. the neighbourhoods
   of isize::MAX / usize::MAX rendered on a 16-bit word) replayed through the SliceIndex machine. *)
EXTENDS SliceIndex, Json, IOUtils

Rec == ndJsonDeserialize(IOEnv.TRACE)
NoNat == {}

VARIABLE l
tvars == <<vars, l>>

TraceInit == /\ l = 0 /\ Len(Rec) > 0
             /\ op = Rec[1].ev /\ len = Rec[1].len /\ esz = 2 /\ a = Rec[1].a /\ b = Rec[1].b
             /\ cur = Whole(len) /\ stage = 1 /\ ghost = <<0, 0>> /\ pc = "guard" /\ res = None /\ res2 = None

Load(r) == /\ op' = r.ev /\ len' = r.len /\ esz' = 2 /\ a' = r.a /\ b' = r.b
           /\ cur' = Whole(r.len) /\ stage' = 1 /\ ghost' = <<0, 0>> /\ pc' = "guard" /\ res' = None /\ res2' = None

Consume == /\ pc = "done" /\ l < Len(Rec)
           /\ Out = Rec[l + 1].ret
           /\ l' = l + 1
           /\ IF l + 2 <= Len(Rec) THEN Load(Rec[l + 2])
              ELSE pc' = "end" /\ UNCHANGED <<op, len, esz, a, b, cur, stage, ghost, res, res2>>

TraceNext == (Next /\ UNCHANGED l) \/ Consume
TraceSpec == TraceInit /\ [][TraceNext]_tvars

Progress == TLCSet(1, l)
Accepted == LET c == TLCGet(1) IN
            IF c = Len(Rec) THEN TRUE
            ELSE Print(<<"TRACE-REJECTED at event", c + 1, Rec[c + 1]>>, FALSE)
=============================================================================
