SPECIFICATION TraceSpec
CONSTANTS
  Flat <- NoSet
  Nested <- NoSet
INVARIANTS ReadsInBounds Refines
CONSTRAINT Progress
POSTCONDITION Accepted
CHECK_DEADLOCK FALSE
