SPECIFICATION TraceSpec
CONSTANTS
  MaxLen = 0
INVARIANTS TypeOK LiveInv Refines RemainderInv ItemsInside ArithInv
CONSTRAINT Progress
POSTCONDITION Accepted
CHECK_DEADLOCK FALSE
