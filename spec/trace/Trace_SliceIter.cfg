SPECIFICATION TraceSpec
CONSTANTS
  MaxLen = 0
  ArrayNs = {1, 2, 3, 4, 5, 8, 16}
INVARIANTS TypeOK LiveInv Refines RemainderInv ItemsInside ArithInv
CONSTRAINT Progress
POSTCONDITION Accepted
CHECK_DEADLOCK FALSE
