SPECIFICATION Spec
CONSTRAINT Progress
POSTCONDITION Accepted
CHECK_DEADLOCK FALSE
