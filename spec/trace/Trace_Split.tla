----------------------------- MODULE Trace_Split -----------------------------
(* impl -> spec for C06: recorded iterations (forward, backward, reversed; mixed ends for one-character
   delimiters) on random strings up to ~40 bytes with eight delimiters incl. empty and self-overlapping. *)
EXTENDS Split, Json, IOUtils
Rec == ndJsonDeserialize(IOEnv.TRACE)
NoSet == {}
VARIABLE l
tvars == <<vars, l>>
R == Rec[l + 1]

TraceInit == /\ l = 0 /\ kind = "split" /\ s = <<>> /\ d = <<44>> /\ lo = 0 /\ hi = 0 /\ phase = "Normal"
             /\ fwd = TRUE /\ hist = <<>>
TrInit == /\ l < Len(Rec) /\ R.ev = "init" /\ l' = l + 1
          /\ kind' = R.kind /\ s' = R.s /\ d' = R.d /\ lo' = 0 /\ hi' = Len(R.s)
          /\ phase' = (IF R.d = <<>> THEN "EmptyStart" ELSE "Normal") /\ fwd' = TRUE /\ hist' = <<>>
\* the logged remainder is the model's window (a Finished iterator holds a fresh "")
RemOK == R.rem = Slice(s, lo', hi')
TrStep == /\ l < Len(Rec) /\ R.ev \in {"next", "next_back"} /\ l' = l + 1
          /\ LET r == IF R.ev = "next" THEN DoNext ELSE DoNextBack IN
             /\ IsSome(r.item) <=> R.has = 1
             /\ IsSome(r.item) => r.item.some = R.piece
             /\ IF IsSome(r.item) THEN lo' = r.lo /\ hi' = r.hi /\ phase' = r.phase ELSE UNCHANGED <<lo, hi, phase>>
          /\ hist' = Append(hist, R.ev) /\ UNCHANGED <<kind, s, d, fwd>>
          /\ RemOK
TrRev == /\ l < Len(Rec) /\ R.ev = "rev" /\ l' = l + 1 /\ kind = "split"
         /\ fwd' = ~fwd /\ hist' = Append(hist, "rev") /\ UNCHANGED <<kind, s, d, lo, hi, phase>>
         /\ RemOK
TraceNext == TrInit \/ TrStep \/ TrRev
TraceSpec == TraceInit /\ [][TraceNext]_tvars
Progress == TLCSet(1, l)
Accepted == LET c == TLCGet(1) IN
            IF c = Len(Rec) THEN TRUE
            ELSE Print(<<"TRACE-REJECTED at event", c + 1, Rec[c + 1]>>, FALSE)
=============================================================================
