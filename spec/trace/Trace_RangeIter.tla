--------------------------- MODULE Trace_RangeIter ---------------------------
(* impl -> spec for C09: random next / next_back / rev histories recorded on real u16 / i16 / char
   ranges (real values), checked action by action against RangeIter.tla over the type's true domain. *)
EXTENDS RangeIter, Json, IOUtils
Rec == ndJsonDeserialize(IOEnv.TRACE)
NoSet == {}
I16Min == -32768
VARIABLE l
tvars == <<vars, l>>
R == Rec[l + 1]

TraceInit == l = 0 /\ kind = "excl" /\ start = MinV /\ end = MinV /\ fwd = TRUE /\ hist = <<>>
TrInit == /\ l < Len(Rec) /\ R.ev = "init" /\ l' = l + 1
          /\ kind' = R.kind /\ start' = R.start /\ end' = (IF R.kind = "from" THEN MaxV ELSE R.end)
          /\ fwd' = TRUE /\ hist' = <<>>
TrStep == /\ l < Len(Rec) /\ R.ev \in {"next", "next_back"} /\ l' = l + 1
          /\ LET r == IF R.ev = "next" THEN DoNext ELSE DoNextBack IN
             /\ IsSome(r.item) <=> R.has = 1
             /\ IsSome(r.item) => r.item.some = R.item
             /\ IF IsSome(r.item) THEN start' = r.start /\ end' = r.end ELSE UNCHANGED <<start, end>>
          /\ hist' = <<>> /\ UNCHANGED <<kind, fwd>>
TrRev == /\ l < Len(Rec) /\ R.ev = "rev" /\ l' = l + 1 /\ kind # "from"
         /\ fwd' = ~fwd /\ hist' = <<>> /\ UNCHANGED <<kind, start, end>>
TraceNext == TrInit \/ TrStep \/ TrRev
TraceSpec == TraceInit /\ [][TraceNext]_tvars
Progress == TLCSet(1, l)
Accepted == LET c == TLCGet(1) IN
            IF c = Len(Rec) THEN TRUE
            ELSE Print(<<"TRACE-REJECTED at event", c + 1, Rec[c + 1]>>, FALSE)
=============================================================================
