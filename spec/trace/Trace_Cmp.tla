------------------------------ MODULE Trace_Cmp ------------------------------
(* impl -> spec for C16: recorded eq/cmp calls on longer random sequences (flat <= 12, nested <= 5x4)
   through a rotating choice of the real functions; each is explained by a run of the Cmp machine. *)
EXTENDS Cmp, Json, IOUtils

Rec == ndJsonDeserialize(IOEnv.TRACE)
NoSet == {}
VARIABLE n
tvars == <<vars, n>>

TraceInit == /\ n = 0 /\ Len(Rec) > 0
             /\ kind = Rec[1].kind /\ l = Rec[1].l /\ r = Rec[1].r /\ mode = Rec[1].ev
             /\ i = 0 /\ pc = "start" /\ res = "none"
Load(x) == /\ kind' = x.kind /\ l' = x.l /\ r' = x.r /\ mode' = x.ev /\ i' = 0 /\ pc' = "start" /\ res' = "none"

Obs(x) == IF x.ev = "eq" THEN (IF x.ret THEN "true" ELSE "false") ELSE x.ret

Consume == /\ pc = "done" /\ n < Len(Rec)
           /\ res = Obs(Rec[n + 1])
           /\ n' = n + 1
           /\ IF n + 2 <= Len(Rec) THEN Load(Rec[n + 2])
              ELSE pc' = "end" /\ UNCHANGED <<kind, l, r, mode, i, res>>

TraceNext == (Next /\ UNCHANGED n) \/ Consume
TraceSpec == TraceInit /\ [][TraceNext]_tvars
Progress == TLCSet(1, n)
Accepted == LET c == TLCGet(1) IN
            IF c = Len(Rec) THEN TRUE
            ELSE Print(<<"TRACE-REJECTED at event", c + 1, Rec[c + 1]>>, FALSE)
=============================================================================
