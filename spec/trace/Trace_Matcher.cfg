SPECIFICATION TraceSpec
CONSTANTS
  Pairs <- NoStrings
INVARIANTS TraceTypeOK ReadsInBounds Refines
CONSTRAINT Progress
POSTCONDITION Accepted
CHECK_DEADLOCK FALSE
