SPECIFICATION TraceSpec
CONSTANTS
  Hays <- NoStrings
  Needles <- NoStrings
INVARIANTS TraceTypeOK ReadsInBounds Refines
CONSTRAINT Progress
POSTCONDITION Accepted
CHECK_DEADLOCK FALSE
