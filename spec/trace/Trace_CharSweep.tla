--------------------------- MODULE Trace_CharSweep ---------------------------
(***************************************************************************)
(* Complete enumeration part of C07: the harness logs, for every u32 in a  *)
(* range of 256-value blocks, konst's from_u32 result, encode_utf8 bytes   *)
(* and the value decoded back by chars(); every block must satisfy         *)
(*   from_u32(n) # None  <=>  IsScalar(n)                                  *)
(*   encode_utf8(c) = Encode(c)       (std's bytes, by the UTF-8 definition)*)
(*   chars(encode(c)) yields c from the front and from the back            *)
(***************************************************************************)
EXTENDS Utf8, Json, IOUtils, TLC
Rec == ndJsonDeserialize(IOEnv.TRACE)
VARIABLE l
R == Rec[l + 1]

BlockOK(b) == \A i \in 1..256 :
                 LET v == b.base + i - 1 IN
                 IF IsScalar(v) THEN b.enc[i] = Encode(v) /\ b.dec[i] = v
                 ELSE b.enc[i] = <<>> /\ b.dec[i] = -1

Init == l = 0
Next == /\ l < Len(Rec) /\ l' = l + 1
        /\ \/ R.ev = "block" /\ BlockOK(R)
           \/ R.ev = "big" /\ R.some = 0          \* values >= 0x110000 are never chars
Spec == Init /\ [][Next]_l
Progress == TLCSet(1, l)
Accepted == LET c == TLCGet(1) IN
            IF c = Len(Rec) THEN TRUE
            ELSE Print(<<"TRACE-REJECTED at event", c + 1, [ev |-> Rec[c + 1].ev]>>, FALSE)
=============================================================================
