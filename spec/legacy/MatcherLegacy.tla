---------------------------- MODULE MatcherLegacy ----------------------------
(***************************************************************************)
(* The matcher of the pinned tree *before* the F1 repair, transcribed one   *)
(* loop iteration per action: a single pass over the haystack keeps         *)
(* `matching` = the suffix of the needle still to be matched; on a mismatch *)
(* it restarts at needle[1..] if the current byte equals needle[0], else at *)
(* the whole needle.  TLC refutes `Refines` (e.g. hay = "aaab", needle =    *)
(* "aab"): this file is kept as a counterexample demo and as a spec-level   *)
(* mutation for the self-test; it is not part of any registered check.      *)
(***************************************************************************)
EXTENDS Common, MatcherRef, TLC
CONSTANTS MaxHay, MaxNeedle
VARIABLES h, n, i, m, pc, res            \* m = number of needle bytes already matched
vars == <<h, n, i, m, pc, res>>
Init == /\ h \in SeqsUpTo({97, 98}, MaxHay) /\ n \in SeqsUpTo({97, 98}, MaxNeedle) /\ n # <<>>
        /\ i = 0 /\ m = 0 /\ pc = "loop" /\ res = None
Step == /\ pc = "loop" /\ UNCHANGED <<h, n>>
        /\ IF m = Len(n) THEN res' = Some(i - Len(n)) /\ pc' = "done" /\ UNCHANGED <<i, m>>       \* [] => return Some(i - len)
           ELSE IF i = Len(h) THEN res' = None /\ pc' = "done" /\ UNCHANGED <<i, m>>
           ELSE /\ i' = i + 1 /\ UNCHANGED <<pc, res>>
                /\ m' = IF h[i + 1] = n[m + 1] THEN m + 1
                        ELSE IF h[i + 1] = n[1] THEN 1 ELSE 0                                      \* "lawlawn" heuristic
Next == Step
Spec == Init /\ [][Next]_vars
Refines == pc = "done" => res = Find(h, n)
=============================================================================
