SPECIFICATION Spec
CONSTANTS
  Descs <- MCDescs
  Guards <- NoTypeGuard
  MaxN = 2
INVARIANTS LedgerOK
CHECK_DEADLOCK FALSE
