SPECIFICATION Spec
CONSTANTS
  Descs <- MCDescs
  Guards <- NoFieldGuard
  MaxN = 2
INVARIANTS LedgerOK
CHECK_DEADLOCK FALSE
