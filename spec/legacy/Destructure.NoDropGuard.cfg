SPECIFICATION Spec
CONSTANTS
  Descs <- MCDescs
  Guards <- NoDropGuard
  MaxN = 2
INVARIANTS LedgerOK
CHECK_DEADLOCK FALSE
