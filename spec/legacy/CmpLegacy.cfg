SPECIFICATION Spec
CONSTANTS
  MaxLen = 2
INVARIANT Refines
CHECK_DEADLOCK FALSE
