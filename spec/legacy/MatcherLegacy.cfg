SPECIFICATION Spec
CONSTANTS
  MaxHay = 5
  MaxNeedle = 3
INVARIANT Refines
CHECK_DEADLOCK FALSE
