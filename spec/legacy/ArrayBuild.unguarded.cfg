SPECIFICATION Spec
CONSTANTS
  MaxN = 3
  Guarded = FALSE
INVARIANTS AssumePre
CONSTRAINT SpinBound
CHECK_DEADLOCK FALSE
