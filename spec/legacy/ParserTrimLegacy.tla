--------------------------- MODULE ParserTrimLegacy ---------------------------
(* Parser::trim of the pinned tree before the F3 repair: `parsing!{self, FromBoth; ..}` added the whole
   length difference (bytes removed at BOTH ends) to start_offset.  TLC refutes OffsetInv after one step
   (minimal witness: Parser::new(" ").trim()).  Counterexample demo / spec-level mutation only. *)
EXTENDS Common, StripTrimRef, TLC
CONSTANTS MaxLen
VARIABLES orig, lo, hi, so
vars == <<orig, lo, hi, so>>
Init == orig \in SeqsUpTo({32, 97}, MaxLen) /\ lo = 0 /\ hi = Len(orig) /\ so = 0
Trim == LET rem == Slice(orig, lo, hi) ce == WsEnd(rem) cs == WsStart(TrimEndWs(rem)) IN
        /\ lo' = lo + cs /\ hi' = hi - ce
        /\ so' = so + ((hi - lo) - (hi' - lo'))          \* copy.str.len() - self.str.len()
        /\ UNCHANGED orig
Spec == Init /\ [][Trim]_vars
OffsetInv == so = lo
=============================================================================
