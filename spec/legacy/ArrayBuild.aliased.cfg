SPECIFICATION Spec
CONSTANTS
  MaxN = 3
  CounterAliased = TRUE
  Guarded = TRUE
INVARIANTS AssumePre
CONSTRAINT SpinBound
CHECK_DEADLOCK FALSE
