SPECIFICATION Spec
CONSTANTS
  MaxLen = 3
INVARIANT OffsetInv
CHECK_DEADLOCK FALSE
