------------------------------ MODULE CmpLegacy ------------------------------
(* cmp_inner / const_cmp_for!(slice) of the pinned tree before the F4 repair: lengths are compared before the
   elements.  TLC refutes Refines (e.g. [1] vs [0,0]).  Counterexample demo / spec-level mutation only. *)
EXTENDS Common, TLC
CONSTANTS MaxLen
IntCmp(x, y) == IF x < y THEN "Less" ELSE IF x > y THEN "Greater" ELSE "Equal"
RECURSIVE Lex(_, _)
Lex(l, r) == IF l = <<>> /\ r = <<>> THEN "Equal" ELSE IF l = <<>> THEN "Less" ELSE IF r = <<>> THEN "Greater"
             ELSE IF IntCmp(Head(l), Head(r)) # "Equal" THEN IntCmp(Head(l), Head(r)) ELSE Lex(Tail(l), Tail(r))
VARIABLES l, r, i, pc, res
vars == <<l, r, i, pc, res>>
Init == l \in SeqsUpTo({0, 1}, MaxLen) /\ r \in SeqsUpTo({0, 1}, MaxLen) /\ i = 0 /\ pc = "len" /\ res = "none"
LenFirst == /\ pc = "len" /\ UNCHANGED <<l, r, i>>
            /\ IF Len(l) # Len(r) THEN res' = IntCmp(Len(l), Len(r)) /\ pc' = "done" ELSE pc' = "loop" /\ UNCHANGED res
Loop == /\ pc = "loop" /\ UNCHANGED <<l, r>>
        /\ IF i = Len(l) THEN res' = "Equal" /\ pc' = "done" /\ UNCHANGED i
           ELSE IF IntCmp(l[i + 1], r[i + 1]) # "Equal" THEN res' = IntCmp(l[i + 1], r[i + 1]) /\ pc' = "done" /\ UNCHANGED i
           ELSE i' = i + 1 /\ UNCHANGED <<pc, res>>
Spec == Init /\ [][LenFirst \/ Loop]_vars
Refines == pc = "done" => res = Lex(l, r)
=============================================================================
