------------------------------ MODULE Ownership ------------------------------
(***************************************************************************)
(* C15 (containers): ArrayConsumer / ArrayBuilder move every element        *)
(* exactly once.                                                            *)
(*                                                                          *)
(* Ghost memory model: every element value has an identity (id) and exactly *)
(* one owner at any time: a container ("a" | "b"), the caller, or           *)
(* "dropped".  A container is the struct's fields: the MaybeUninit array    *)
(* (ids, 0 = never written), taken_front/taken_back resp. inited.           *)
(*                                                                          *)
(* M : each method written with the code's index arithmetic; an unsafe read *)
(*     (assume_init_read, ptr::read in build, drop_in_place, the            *)
(*     from_raw_parts windows of as_slice) of a slot whose value the        *)
(*     container does not own sets `err` — that is a duplicated value, a    *)
(*     double drop or a read of an uninitialised slot.                      *)
(* R : invariants NoErr, OwnerConsistent (window = owned ids), NoLeak,      *)
(*     and Order (values are handed out in their original order).           *)
(***************************************************************************)
EXTENDS Common, TLC

CONSTANTS N, MaxClones

Names == {"a", "b"}
NoObj == [kind |-> "none", arr |-> <<>>, tf |-> 0, tb |-> 0, inited |-> 0]

VARIABLES objs, owner, handed, nextid, clones, err, hist, scen
vars == <<objs, owner, handed, nextid, clones, err, hist, scen>>
View == <<objs, owner, handed, nextid, clones, err>>

Ids == 1..(nextid - 1)
Fresh(k) == [q \in 1..k |-> nextid + q - 1]

\* the slots a container currently exposes / will drop
Window(o) == IF o.kind = "consumer" THEN SubSeq(o.arr, o.tf + 1, N - o.tb)     \* ptr.add(taken_front), slice_len
             ELSE IF o.kind = "builder" THEN SubSeq(o.arr, 1, o.inited)
             ELSE <<>>
Owns(nm, id) == id \in DOMAIN owner /\ owner[id] = nm
AllOwned(nm, ids) == \A q \in 1..Len(ids) : ids[q] # 0 /\ Owns(nm, ids[q])

Give(ids, to) == [id \in DOMAIN owner |-> IF \E q \in 1..Len(ids) : ids[q] = id THEN to ELSE owner[id]]

Init == /\ \/ objs = [nm \in Names |-> IF nm = "a" THEN [kind |-> "consumer", arr |-> [q \in 1..N |-> q], tf |-> 0, tb |-> 0, inited |-> 0] ELSE NoObj]
              /\ owner = [id \in 1..N |-> "a"] /\ nextid = N + 1 /\ scen = "consumer"
           \* ArrayConsumer::empty(): uninit_array(), taken_front = N, taken_back = 0 - owns nothing
           \/ objs = [nm \in Names |-> IF nm = "a" THEN [kind |-> "consumer", arr |-> [q \in 1..N |-> 0], tf |-> N, tb |-> 0, inited |-> 0] ELSE NoObj]
              /\ owner = <<>> /\ nextid = 1 /\ scen = "consumer_empty"
           \/ objs = [nm \in Names |-> IF nm = "a" THEN [kind |-> "builder", arr |-> [q \in 1..N |-> 0], tf |-> 0, tb |-> 0, inited |-> 0] ELSE NoObj]
              /\ owner = <<>> /\ nextid = 1 /\ scen = "builder"
        /\ handed = <<>> /\ clones = 0 /\ err = FALSE /\ hist = <<>>

LogJ(op, nm, j) == hist' = Append(hist, [op |-> op, o |-> nm, j |-> j]) /\ UNCHANGED scen
Log(op, nm) == LogJ(op, nm, 0)
Set(nm, o) == objs' = [objs EXCEPT ![nm] = o]

\* ArrayConsumer::next / next_back: assume_init_read of array[taken_front] / array[N - taken_back - 1]
CNext(nm) == LET o == objs[nm] IN
    /\ o.kind = "consumer" /\ N - o.tf - o.tb > 0
    /\ LET id == o.arr[o.tf + 1] IN
       /\ err' = (err \/ id = 0 \/ ~Owns(nm, id))
       /\ owner' = Give(<<id>>, "caller") /\ handed' = Append(handed, id)
    /\ Set(nm, [o EXCEPT !.tf = o.tf + 1]) /\ Log("next", nm) /\ UNCHANGED <<nextid, clones>>
CNextBack(nm) == LET o == objs[nm] IN
    /\ o.kind = "consumer" /\ N - o.tf - o.tb > 0
    /\ LET id == o.arr[N - o.tb] IN
       /\ err' = (err \/ id = 0 \/ ~Owns(nm, id))
       /\ owner' = Give(<<id>>, "caller") /\ handed' = Append(handed, id)
    /\ Set(nm, [o EXCEPT !.tb = o.tb + 1]) /\ Log("next_back", nm) /\ UNCHANGED <<nextid, clones>>
\* None from an empty consumer
CNone(nm) == LET o == objs[nm] IN
    /\ o.kind = "consumer" /\ N - o.tf - o.tb = 0
    /\ Log("next_none", nm) /\ UNCHANGED <<objs, owner, handed, nextid, clones, err>>

\* Clone for ArrayConsumer: taken_front = 0, taken_back = N, then array[i] = clone; taken_back -= 1
\* Clone for ArrayBuilder: new(), push(clone) for each
Clone(nm, to) == LET o == objs[nm] w == Window(o) k == Len(Window(o)) IN
    /\ o.kind \in {"consumer", "builder"} /\ objs[to].kind = "none" /\ clones < MaxClones
    /\ err' = (err \/ ~AllOwned(nm, w))                          \* as_slice() of the source is read
    /\ objs' = [objs EXCEPT ![to] =
                  IF o.kind = "consumer"
                  THEN [kind |-> "consumer", arr |-> [q \in 1..N |-> IF q <= k THEN nextid + q - 1 ELSE 0], tf |-> 0, tb |-> N - k, inited |-> 0]
                  ELSE [kind |-> "builder", arr |-> [q \in 1..N |-> IF q <= k THEN nextid + q - 1 ELSE 0], tf |-> 0, tb |-> 0, inited |-> k]]
    /\ owner' = [id \in (DOMAIN owner) \cup {nextid + q - 1 : q \in 1..k} |-> IF id \in DOMAIN owner THEN owner[id] ELSE to]
    /\ nextid' = nextid + k /\ clones' = clones + 1 /\ Log("clone", nm) /\ UNCHANGED handed

\* Clone::clone_from(&mut dst, &src) on two live containers.  Neither type overrides it, so it is `*dst = src.clone()`:
\* the clone is built first (fresh values, in order), then the old contents of dst are dropped.  (An override that
\* reuses dst's storage element by element would create and drop the same numbers of values.)
CloneFrom(nm, src) == LET d == objs[nm] o == objs[src] w == Window(o) k == Len(Window(o)) IN
    /\ o.kind \in {"consumer", "builder"} /\ d.kind = o.kind /\ clones < MaxClones
    /\ err' = (err \/ ~AllOwned(src, w) \/ ~AllOwned(nm, Window(d)))
    /\ objs' = [objs EXCEPT ![nm] =
                  IF o.kind = "consumer"
                  THEN [kind |-> "consumer", arr |-> [q \in 1..N |-> IF q <= k THEN nextid + q - 1 ELSE 0], tf |-> 0, tb |-> N - k, inited |-> 0]
                  ELSE [kind |-> "builder", arr |-> [q \in 1..N |-> IF q <= k THEN nextid + q - 1 ELSE 0], tf |-> 0, tb |-> 0, inited |-> k]]
    /\ owner' = [id \in (DOMAIN owner) \cup {nextid + q - 1 : q \in 1..k} |->
                   IF id \notin DOMAIN owner THEN nm
                   ELSE IF \E q \in 1..Len(Window(d)) : Window(d)[q] = id THEN "dropped" ELSE owner[id]]
    /\ nextid' = nextid + k /\ clones' = clones + 1 /\ Log("clone_from", nm) /\ UNCHANGED handed

\* Clone where T::clone panics on the (j+1)-th element: the half-built clone is dropped while unwinding.
\* Consumer: `this.array[i] = ..; this.taken_back -= 1` keeps the window = the j clones written so far;
\* Builder: `this.push(clone)` likewise.  So exactly the j fresh values are dropped, the source is untouched.
ClonePanic(nm, j) == LET o == objs[nm] w == Window(o) IN
    /\ o.kind \in {"consumer", "builder"} /\ clones < MaxClones /\ j < Len(w)
    /\ err' = (err \/ ~AllOwned(nm, w))
    /\ owner' = [id \in (DOMAIN owner) \cup {nextid + q - 1 : q \in 1..j} |-> IF id \in DOMAIN owner THEN owner[id] ELSE "dropped"]
    /\ nextid' = nextid + j /\ clones' = clones + 1 /\ LogJ("clone_panic", nm, j) /\ UNCHANGED <<objs, handed>>

\* Drop: slice_from_raw_parts_mut(ptr.add(taken_front), slice_len).drop_in_place()  |  (ptr, inited)
DropObj(nm) == LET o == objs[nm] w == Window(o) IN
    /\ o.kind \in {"consumer", "builder"}
    /\ err' = (err \/ ~AllOwned(nm, w))
    /\ owner' = Give(w, "dropped") /\ Set(nm, NoObj) /\ Log("drop", nm) /\ UNCHANGED <<handed, nextid, clones>>

\* assert_is_empty: assert!(is_empty) then mem::forget (the panicking path is not a completed path)
CAssertEmpty(nm) == LET o == objs[nm] IN
    /\ o.kind = "consumer" /\ N - o.tf - o.tb = 0
    /\ Set(nm, NoObj) /\ Log("assert_is_empty", nm) /\ UNCHANGED <<owner, handed, nextid, clones, err>>

\* ArrayBuilder::push (a full builder panics: excluded)
BPush(nm) == LET o == objs[nm] IN
    /\ o.kind = "builder" /\ o.inited < N
    /\ Set(nm, [o EXCEPT !.arr[o.inited + 1] = nextid, !.inited = o.inited + 1])
    /\ owner' = [id \in (DOMAIN owner) \cup {nextid} |-> IF id = nextid THEN nm ELSE owner[id]]
    /\ nextid' = nextid + 1 /\ Log("push", nm) /\ UNCHANGED <<handed, clones, err>>

\* ArrayBuilder::push on a full builder: the assertion fires before anything is written; the value that was passed in is
\* dropped by the unwinding and the builder is left exactly as it was (it can still be inspected and built)
BPushFull(nm) == LET o == objs[nm] IN
    /\ o.kind = "builder" /\ o.inited = N /\ clones < MaxClones
    /\ owner' = [id \in (DOMAIN owner) \cup {nextid} |-> IF id = nextid THEN "dropped" ELSE owner[id]]
    /\ nextid' = nextid + 1 /\ clones' = clones + 1 /\ Log("push_full", nm) /\ UNCHANGED <<objs, handed, err>>

\* ArrayBuilder::build: assert full, ManuallyDrop, read the whole array
BBuild(nm) == LET o == objs[nm] IN
    /\ o.kind = "builder" /\ o.inited = N
    /\ err' = (err \/ ~AllOwned(nm, o.arr))
    /\ owner' = Give(o.arr, "caller") /\ handed' = handed \o o.arr
    /\ Set(nm, NoObj) /\ Log("build", nm) /\ UNCHANGED <<nextid, clones>>

Next == \E nm \in Names :
          \/ CNext(nm) \/ CNextBack(nm) \/ CNone(nm) \/ DropObj(nm) \/ CAssertEmpty(nm) \/ BPush(nm) \/ BPushFull(nm) \/ BBuild(nm)
          \/ \E to \in Names \ {nm} : Clone(nm, to) \/ CloneFrom(nm, to)
          \/ \E j \in 0..(N - 1) : ClonePanic(nm, j)
Spec == Init /\ [][Next]_vars

-----------------------------------------------------------------------------
NoErr == ~err
\* the window of every live container is exactly the set of values it owns
OwnerConsistent ==
    \A nm \in Names :
        /\ AllOwned(nm, Window(objs[nm]))
        /\ \A id \in DOMAIN owner : owner[id] = nm => \E q \in 1..Len(Window(objs[nm])) : Window(objs[nm])[q] = id
\* no value is owned by a container that no longer exists (leak)
NoLeak == \A id \in DOMAIN owner : owner[id] \in Names => objs[owner[id]].kind # "none"
\* each value is handed out at most once
HandedOnce == \A p, q \in 1..Len(handed) : p # q => handed[p] # handed[q]
=============================================================================
