-------------------------------- MODULE OptRes --------------------------------
(***************************************************************************)
(* C19: option:: / result:: macros, try_! / try_opt! / try_rebind! /        *)
(* rebind_if_ok!, min! / max! (+ _by, _by_key).                             *)
(*                                                                          *)
(* Values: payloads are naturals; an Option is None | Some(v); a Result is  *)
(* Ok(v) | Err(e).  Closure library: F(v) = v + 1, G(v) = None if v = 1     *)
(* else Some(v + 10) (and Ok/Err analogues), P(v) = (v # 1), fallback       *)
(* closure FB() = 7 which also raises the `called` flag; fallback value 9.  *)
(*                                                                          *)
(*  R : the std method of the same name (value and whether std calls the    *)
(*      fallback closure).                                                  *)
(*  M : the macro expansion as its `match` arms (one action per macro).     *)
(***************************************************************************)
EXTENDS Common, TLC

OptVals == {None} \cup {Some(v) : v \in 0..2}
ResVals == {Ok(v) : v \in 0..2} \cup {Err(e) : e \in 0..2}
NestedOpt == {None, Some(None)} \cup {Some(Some(v)) : v \in 0..1}

F(v) == v + 1
GOpt(v) == IF v = 1 THEN None ELSE Some(v + 10)
GRes(v) == IF v = 1 THEN Err(50 + v) ELSE Ok(v + 10)
HRes(e) == IF e = 1 THEN Ok(60 + e) ELSE Err(e + 20)        \* or_else on Result
Pr(v) == v # 1
FB == 7
FV == 9
IsOk(r) == "ok" \in DOMAIN r

Out(v, called) == [val |-> v, called |-> called]

OptMacros == {"unwrap_or", "unwrap_or_else", "ok_or", "ok_or_else", "map", "and_then", "or_else", "filter", "copied"}
ResMacros == {"unwrap_or", "unwrap_or_else", "unwrap_err_or_else", "ok", "err", "map", "map_err", "and_then", "or_else"}

\* R: std::option::Option methods
StdOpt(mac, o) ==
    CASE mac = "unwrap_or"      -> Out(IF IsSome(o) THEN o.some ELSE FV, FALSE)
      [] mac = "unwrap_or_else" -> IF IsSome(o) THEN Out(o.some, FALSE) ELSE Out(FB, TRUE)
      [] mac = "ok_or"          -> Out(IF IsSome(o) THEN Ok(o.some) ELSE Err(FV), FALSE)
      [] mac = "ok_or_else"     -> IF IsSome(o) THEN Out(Ok(o.some), FALSE) ELSE Out(Err(FB), TRUE)
      [] mac = "map"            -> Out(IF IsSome(o) THEN Some(F(o.some)) ELSE None, FALSE)
      [] mac = "and_then"       -> Out(IF IsSome(o) THEN GOpt(o.some) ELSE None, FALSE)
      [] mac = "or_else"        -> IF IsSome(o) THEN Out(o, FALSE) ELSE Out(Some(FB), TRUE)
      [] mac = "filter"         -> Out(IF IsSome(o) /\ Pr(o.some) THEN o ELSE None, FALSE)
      [] mac = "copied"         -> Out(o, FALSE)
StdFlatten(oo) == IF IsSome(oo) THEN oo.some ELSE None

\* R: std::result::Result methods
StdRes(mac, r) ==
    CASE mac = "unwrap_or"          -> Out(IF IsOk(r) THEN r.ok ELSE FV, FALSE)
      [] mac = "unwrap_or_else"     -> IF IsOk(r) THEN Out(r.ok, FALSE) ELSE Out(r.err + 100, TRUE)      \* |e| e + 100
      [] mac = "unwrap_err_or_else" -> IF IsOk(r) THEN Out(r.ok + 100, TRUE) ELSE Out(r.err, FALSE)
      [] mac = "ok"                 -> Out(IF IsOk(r) THEN Some(r.ok) ELSE None, FALSE)
      [] mac = "err"                -> Out(IF IsOk(r) THEN None ELSE Some(r.err), FALSE)
      [] mac = "map"                -> Out(IF IsOk(r) THEN Ok(F(r.ok)) ELSE r, FALSE)
      [] mac = "map_err"            -> Out(IF IsOk(r) THEN r ELSE Err(F(r.err)), FALSE)
      [] mac = "and_then"           -> Out(IF IsOk(r) THEN GRes(r.ok) ELSE r, FALSE)
      [] mac = "or_else"            -> Out(IF IsOk(r) THEN r ELSE HRes(r.err), FALSE)

-----------------------------------------------------------------------------
(* M: the expansions *)
VARIABLES fam, mac, arg, pc, out
vars == <<fam, mac, arg, pc, out>>

Init == /\ \/ fam = "option" /\ mac \in OptMacros /\ arg \in OptVals
           \/ fam = "result" /\ mac \in ResMacros /\ arg \in ResVals
        /\ pc = "expand" /\ out = Out(0, FALSE)

\* option:: macros: `match $e { Some(x) => .., None => .. }`; unwrap_or / ok_or evaluate `$v` in `match ($e, $v)`
ExpandOpt ==
    /\ fam = "option" /\ pc = "expand" /\ pc' = "done" /\ UNCHANGED <<fam, mac, arg>>
    /\ out' = CASE mac = "unwrap_or"      -> IF IsSome(arg) THEN Out(arg.some, FALSE) ELSE Out(FV, FALSE)
                [] mac = "unwrap_or_else" -> IF IsSome(arg) THEN Out(arg.some, FALSE) ELSE Out(FB, TRUE)
                [] mac = "ok_or"          -> IF IsSome(arg) THEN Out(Ok(arg.some), FALSE) ELSE Out(Err(FV), FALSE)
                [] mac = "ok_or_else"     -> IF IsSome(arg) THEN Out(Ok(arg.some), FALSE) ELSE Out(Err(FB), TRUE)
                [] mac = "map"            -> IF IsSome(arg) THEN Out(Some(F(arg.some)), FALSE) ELSE Out(None, FALSE)
                [] mac = "and_then"       -> IF IsSome(arg) THEN Out(GOpt(arg.some), FALSE) ELSE Out(None, FALSE)
                [] mac = "or_else"        -> IF IsSome(arg) THEN Out(Some(arg.some), FALSE) ELSE Out(Some(FB), TRUE)
                \* `Some(x) if { let p = &x; pred } => Some(x), _ => None`
                [] mac = "filter"         -> IF IsSome(arg) /\ Pr(arg.some) THEN Out(Some(arg.some), FALSE) ELSE Out(None, FALSE)
                [] mac = "copied"         -> IF IsSome(arg) THEN Out(Some(arg.some), FALSE) ELSE Out(None, FALSE)

ExpandRes ==
    /\ fam = "result" /\ pc = "expand" /\ pc' = "done" /\ UNCHANGED <<fam, mac, arg>>
    /\ out' = CASE mac = "unwrap_or"          -> IF IsOk(arg) THEN Out(arg.ok, FALSE) ELSE Out(FV, FALSE)
                [] mac = "unwrap_or_else"     -> IF IsOk(arg) THEN Out(arg.ok, FALSE) ELSE Out(arg.err + 100, TRUE)
                [] mac = "unwrap_err_or_else" -> IF IsOk(arg) THEN Out(arg.ok + 100, TRUE) ELSE Out(arg.err, FALSE)
                [] mac = "ok"                 -> IF IsOk(arg) THEN Out(Some(arg.ok), FALSE) ELSE Out(None, FALSE)
                [] mac = "err"                -> IF IsOk(arg) THEN Out(None, FALSE) ELSE Out(Some(arg.err), FALSE)
                [] mac = "map"                -> IF IsOk(arg) THEN Out(Ok(F(arg.ok)), FALSE) ELSE Out(Err(arg.err), FALSE)
                [] mac = "map_err"            -> IF IsOk(arg) THEN Out(Ok(arg.ok), FALSE) ELSE Out(Err(F(arg.err)), FALSE)
                [] mac = "and_then"           -> IF IsOk(arg) THEN Out(GRes(arg.ok), FALSE) ELSE Out(Err(arg.err), FALSE)
                [] mac = "or_else"            -> IF IsOk(arg) THEN Out(Ok(arg.ok), FALSE) ELSE Out(HRes(arg.err), FALSE)

Next == ExpandOpt \/ ExpandRes
Spec == Init /\ [][Next]_vars

Refines == pc = "done" => out = (IF fam = "option" THEN StdOpt(mac, arg) ELSE StdRes(mac, arg))

-----------------------------------------------------------------------------
(* min / max: arguments are (key, identity) pairs; std::cmp::min returns the first argument when the keys
   are equal, max the second *)
MinRef(l, r) == IF r[1] < l[1] THEN r ELSE l
MaxRef(l, r) == IF l[1] > r[1] THEN l ELSE r
\* the expansions: min!: `if right < left {right} else {left}`; __min_by: Greater => right; __max_by: Greater => left;
\* __minmax_by_key(left, right, Greater) / (right, left, Less)
IntLt(a, b) == a < b
MinImpl(l, r)      == IF IntLt(r[1], l[1]) THEN r ELSE l
MaxImpl(l, r)      == IF IntLt(r[1], l[1]) THEN l ELSE r
\* keys 0..3 stand for four order-preserving anchor values of every primitive type
\* (unsigned: 0, 1, 2^(bits-1), MAX; signed: MIN, -1, 0, MAX; char: NUL, 'a', U+D7FF, U+10FFFF)
MMKeys == 0..3
Pairs == {<<k, id>> : k \in MMKeys, id \in {"L", "R"}}
MinMaxOK == \A l \in {p \in Pairs : p[2] = "L"}, r \in {p \in Pairs : p[2] = "R"} :
                MinImpl(l, r) = MinRef(l, r) /\ MaxImpl(l, r) = MaxRef(l, r)

(* rebind: the Ok payload is a single value or a tuple of n <= 6 components; position k of the pattern is
   an existing place ("p"), `let x` ("l"), `let x: T` ("t") or `_` ("u"); component k goes to position k *)
RebindKinds == {"p", "l", "t", "u"}
RebindAssign(pats) == [k \in 1..Len(pats) |-> IF pats[k] = "u" THEN 0 ELSE k]      \* which component each position receives

(* ... "in order": the assignments happen left to right, which is observable when the places depend on each other.
   Place kinds here: "p" the variable p, "x" the element arr[p] (indexed by the *current* value of p), "u" `_`.
   Component k has the value k; p starts at 0 and arr at all zeros. *)
OrderKinds == {"p", "x", "u"}
RECURSIVE RebindOrdFrom(_, _, _)
RebindOrdFrom(pats, k, st) ==
    IF k > Len(pats) THEN st
    ELSE RebindOrdFrom(pats, k + 1,
            CASE pats[k] = "p" -> [st EXCEPT !.p = k]
              [] pats[k] = "x" -> [st EXCEPT !.arr[st.p] = k]
              [] OTHER -> st)
RebindOrd(pats) == RebindOrdFrom(pats, 1, [p |-> 0, arr |-> [q \in 0..3 |-> 0]])

(* by-value fallback arguments (unwrap_or / ok_or, result::unwrap_or) are ordinary arguments: like std's method call the
   macro evaluates them exactly once whether or not the fallback is used (`match ($e, $v)`) *)
EagerArg(f, mc) == (f = "option" /\ mc \in {"unwrap_or", "ok_or"}) \/ (f = "result" /\ mc = "unwrap_or")
=============================================================================
