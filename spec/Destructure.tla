----------------------------- MODULE Destructure -----------------------------
(***************************************************************************)
(* C15 (aggregates) and the destructure! part of C17.                      *)
(*                                                                         *)
(* A *program descriptor* says what the user wrote:                        *)
(*   shape   braced | tuple_struct | tuple | array                         *)
(*   n       number of fields / elements of the value's type               *)
(*   pats    the listed patterns: "b" binds, "u" is `_`,                   *)
(*           "r" is a bound rest `rem @ ..`, "d" an unbound rest `..`      *)
(*   isref   the value is a reference to the aggregate                     *)
(*   isdrop  the aggregate's type implements Drop                          *)
(* M : the expansion as a pipeline over a ghost ledger of field values     *)
(*     (Live -> Moved | Dropped):                                          *)
(*       FieldCheck  exhaustive pattern `Path{f: _, ..all listed}` / tuple *)
(*                   and array length patterns; `..` rejected outside      *)
(*                   arrays; at most one rest in arrays                    *)
(*       TypeAssert  the value is the aggregate itself, not a reference    *)
(*       DropAssert  the aggregate does not implement Drop                 *)
(*       Reads       ManuallyDrop::new(val); one ptr::read per listed      *)
(*                   position (`_` and `..` results are dropped at once)   *)
(*     Each guard can be switched off (Guards constant) to show what it    *)
(*     protects: the ledger invariants then fail.                          *)
(* R : Accepted programs move or drop every field exactly once, in order;  *)
(*     misuse is rejected.                                                 *)
(***************************************************************************)
EXTENDS Common, TLC

CONSTANTS Descs,      \* set of descriptors
          Guards      \* subset of {"field", "type", "drop"} that is enabled (all three in the real macro)

VARIABLES d, pc, ledger, bound, verdict, aggdrop
vars == <<d, pc, ledger, bound, verdict, aggdrop>>

IsStructShape(s) == s \in {"braced", "tuple_struct"}
Rests(p) == {q \in 1..Len(p) : p[q] \in {"r", "d"}}
\* number of elements covered by the rest pattern of an array
RestLen(dd) == dd.n - (Len(dd.pats) - 1)

\* does the exhaustive pattern type-check?
FieldsOK(dd) ==
    IF dd.shape = "array"
    THEN /\ Cardinality(Rests(dd.pats)) <= 1
         /\ IF Rests(dd.pats) = {} THEN Len(dd.pats) = dd.n ELSE Len(dd.pats) - 1 <= dd.n
    ELSE Rests(dd.pats) = {} /\ Len(dd.pats) = dd.n

Misuse(dd) == ~FieldsOK(dd) \/ dd.isref \/ dd.isdrop
Expected(dd) == IF Misuse(dd) THEN "Rejected" ELSE "Accepted"

\* field / element indices read for pattern position q (arrays: the rest covers a block)
Covered(dd, q) ==
    IF dd.shape # "array" \/ Rests(dd.pats) = {} THEN {q}
    ELSE LET r == CHOOSE x \in Rests(dd.pats) : TRUE IN
         IF q < r THEN {q} ELSE IF q = r THEN r..(r + RestLen(dd) - 1) ELSE {q + RestLen(dd) - 1}

\* reference outcome of an accepted program: ids handed to the bindings (in order), ids dropped at once
RECURSIVE IdsOf(_, _, _)
IdsOf(dd, q, kinds) == IF q > Len(dd.pats) THEN <<>>
                       ELSE (IF dd.pats[q] \in kinds THEN SetToSeqAsc(Covered(dd, q)) ELSE <<>>) \o IdsOf(dd, q + 1, kinds)
ExpBound(dd)   == IdsOf(dd, 1, {"b", "r"})
ExpDropped(dd) == IdsOf(dd, 1, {"u", "d"})

Init == /\ d \in Descs /\ pc = "field" /\ ledger = [id \in 1..d.n |-> "Live"]
        /\ bound = <<>> /\ verdict = "" /\ aggdrop = "pending"

FieldCheck == /\ pc = "field" /\ UNCHANGED <<d, ledger, bound, aggdrop>>
              /\ IF "field" \in Guards /\ ~FieldsOK(d) THEN verdict' = "Rejected" /\ pc' = "end"
                 ELSE pc' = "type" /\ UNCHANGED verdict
TypeAssert == /\ pc = "type" /\ UNCHANGED <<d, ledger, bound, aggdrop>>
              /\ IF "type" \in Guards /\ d.isref THEN verdict' = "Rejected" /\ pc' = "end"
                 ELSE pc' = "drop" /\ UNCHANGED verdict
DropAssert == /\ pc = "drop" /\ UNCHANGED <<d, ledger, bound, aggdrop>>
              /\ IF "drop" \in Guards /\ d.isdrop THEN verdict' = "Rejected" /\ pc' = "end"
                 ELSE pc' = "reads" /\ UNCHANGED verdict

\* all reads at once; a read of a field that is not Live is recorded as "Twice"
Reads ==
    /\ pc = "reads" /\ UNCHANGED d
    /\ LET readIds == UNION {Covered(d, q) : q \in 1..MinOf(Len(d.pats), d.n + 1)}
           moved   == {id \in 1..d.n : \E q \in 1..Len(d.pats) : d.pats[q] \in {"b", "r"} /\ id \in Covered(d, q)}
       IN ledger' = [id \in 1..d.n |->
                       IF id \in readIds
                       THEN (IF d.isref THEN "Twice"          \* the referent still owns the field
                             ELSE IF id \in moved THEN "Moved" ELSE "Dropped")
                       ELSE ledger[id]]
    /\ bound' = ExpBound(d)
    \* ManuallyDrop: the aggregate's own Drop never runs
    /\ aggdrop' = IF d.isdrop THEN "skipped" ELSE "none"
    /\ verdict' = "Accepted" /\ pc' = "end"

Next == FieldCheck \/ TypeAssert \/ DropAssert \/ Reads
Spec == Init /\ [][Next]_vars

-----------------------------------------------------------------------------
VerdictOK == pc = "end" => verdict = Expected(d)
\* every field of an accepted program is moved out or dropped exactly once, none is left behind,
\* and a Drop impl of the aggregate is never silently skipped
LedgerOK == pc = "end" /\ verdict = "Accepted" =>
               /\ \A id \in 1..d.n : ledger[id] \in {"Moved", "Dropped"}
               /\ aggdrop = "none"
OrderOK == pc = "end" /\ verdict = "Accepted" => \A p, q \in 1..Len(bound) : p < q => bound[p] < bound[q]
=============================================================================
