------------------------------ MODULE StrIndex ------------------------------
(***************************************************************************)
(* C03 (+ the from_utf8_unchecked preconditions of C01): string slicing.   *)
(*   string::{is_char_boundary, get_from, get_up_to, get_range,            *)
(*            str_from, str_up_to, str_range, split_at}                    *)
(*                                                                         *)
(*  R : std `str.get(range)`, `str::is_char_boundary`, and the documented  *)
(*      clamping rule (index beyond the length = the length; panic exactly *)
(*      when an in-range index is inside a multi-byte character).          *)
(*  M : the code: the *forgiving* predicate (position >= len || lead byte) *)
(*      guards the clamping functions, the *strict* predicate              *)
(*      (position = len || position < len && lead byte) the getters; then  *)
(*      the byte-slice primitive; then from_utf8_unchecked — the "unsafe"  *)
(*      state, where the window must be a Utf8Cut of the argument.         *)
(***************************************************************************)
EXTENDS Common, Utf8, TLC

CONSTANTS Strs,     \* valid UTF-8 strings explored
          Extra     \* index values explored beyond 0..len+2 (word boundaries of the 8-bit model)

Ops1 == {"is_char_boundary", "get_from", "get_up_to", "str_from", "str_up_to", "split_at"}
Ops2 == {"get_range", "str_range"}
Ops  == Ops1 \cup Ops2

IdxOf(s) == (0..(Len(s) + 2)) \cup Extra

-----------------------------------------------------------------------------
(* R *)
InsideChar(s, i) == i < Len(s) /\ ~IsCharBoundary(s, i)

RefPanics(op, s, a, b) ==
    CASE op \in {"str_from", "str_up_to", "split_at"} -> InsideChar(s, a)
      [] op = "str_range" -> InsideChar(s, a) \/ InsideChar(s, b)
      [] OTHER -> FALSE

RefVal(op, s, a, b) ==
    CASE op = "is_char_boundary" -> IsCharBoundary(s, a)
      [] op = "get_from"  -> IF a <= Len(s) /\ IsCharBoundary(s, a) THEN Some(From(s, a)) ELSE None
      [] op = "get_up_to" -> IF a <= Len(s) /\ IsCharBoundary(s, a) THEN Some(UpTo(s, a)) ELSE None
      [] op = "get_range" -> IF a <= b /\ b <= Len(s) /\ IsCharBoundary(s, a) /\ IsCharBoundary(s, b)
                             THEN Some(Slice(s, a, b)) ELSE None
      [] op = "str_from"  -> From(s, MinOf(a, Len(s)))
      [] op = "str_up_to" -> UpTo(s, MinOf(a, Len(s)))
      [] op = "str_range" -> LET st == MinOf(a, Len(s)) e == MinOf(b, Len(s)) IN
                             IF st <= e THEN Slice(s, st, e) ELSE <<>>
      [] op = "split_at"  -> <<UpTo(s, MinOf(a, Len(s))), From(s, MinOf(a, Len(s)))>>

Ref(op, s, a, b) == IF RefPanics(op, s, a, b) THEN Panic ELSE RefVal(op, s, a, b)

-----------------------------------------------------------------------------
(* M *)
VARIABLES op, s, a, b, stage, win, pc, res, res2, pan
vars == <<op, s, a, b, stage, win, pc, res, res2, pan>>

Init == /\ op \in Ops /\ s \in Strs
        /\ a \in IdxOf(s) /\ b \in (IF op \in Ops2 THEN IdxOf(s) ELSE {0})
        /\ stage = 1 /\ win = <<0, 0>> /\ pc = "check" /\ res = None /\ res2 = None /\ pan = FALSE

Forgiving(i) == i >= Len(s) \/ IsLead(s[i + 1])
Strict(i)    == i = Len(s) \/ (i < Len(s) /\ IsLead(s[i + 1]))

\* byte-slice primitives (konst_kernel::slice), as windows <<lo, hi>> of s
BFrom(w, x)  == IF x <= w[2] - w[1] THEN <<w[1] + x, w[2]>> ELSE <<w[1], w[1]>>     \* slice_from: overflow -> &[]
BUpTo(w, x)  == IF x <= w[2] - w[1] THEN <<w[1], w[1] + x>> ELSE w                 \* slice_up_to: overflow -> slice
WholeW       == <<0, Len(s)>>

Check ==
    /\ pc = "check"
    /\ UNCHANGED <<op, s, a, b, res2>>
    /\ pan' = ((op \in {"str_from", "str_up_to", "split_at"} /\ ~Forgiving(a))
                   \/ (op = "str_range" /\ ~(Forgiving(a) /\ Forgiving(b))))
    /\ CASE op = "is_char_boundary" -> res' = Strict(a) /\ pc' = "done" /\ UNCHANGED <<win, stage>>
         [] op = "get_from" ->
              IF a <= Len(s) /\ Strict(a) THEN win' = BFrom(WholeW, a) /\ pc' = "unsafe" /\ UNCHANGED <<res, stage>>
              ELSE res' = None /\ pc' = "done" /\ UNCHANGED <<win, stage>>
         [] op = "get_up_to" ->
              IF a <= Len(s) /\ Strict(a) THEN win' = BUpTo(WholeW, a) /\ pc' = "unsafe" /\ UNCHANGED <<res, stage>>
              ELSE res' = None /\ pc' = "done" /\ UNCHANGED <<win, stage>>
         [] op = "get_range" ->
              \* slice::get_range = get_up_to(end) then get_from(start) on the shortened slice
              IF b <= Len(s) /\ a <= b /\ Strict(a) /\ Strict(b)
              THEN win' = BFrom(BUpTo(WholeW, b), a) /\ pc' = "unsafe" /\ UNCHANGED <<res, stage>>
              ELSE res' = None /\ pc' = "done" /\ UNCHANGED <<win, stage>>
         [] op = "str_from" \/ (op = "split_at" /\ stage = 2) ->
              IF Forgiving(a) THEN win' = BFrom(WholeW, a) /\ pc' = "unsafe" /\ UNCHANGED <<res, stage>>
              ELSE pc' = "done" /\ UNCHANGED <<win, stage, res>>
         [] op = "str_up_to" \/ (op = "split_at" /\ stage = 1) ->
              IF Forgiving(a) THEN win' = BUpTo(WholeW, a) /\ pc' = "unsafe" /\ UNCHANGED <<res, stage>>
              ELSE pc' = "done" /\ UNCHANGED <<win, stage, res>>
         [] op = "str_range" ->
              IF Forgiving(a) /\ Forgiving(b)
              THEN win' = BFrom(BUpTo(WholeW, b), a) /\ pc' = "unsafe" /\ UNCHANGED <<res, stage>>
              ELSE pc' = "done" /\ UNCHANGED <<win, stage, res>>

\* from_utf8_unchecked(window)
Unsafe ==
    /\ pc = "unsafe"
    /\ UNCHANGED <<op, s, a, b, win, pan>>
    /\ LET v == Slice(s, win[1], win[2]) IN
       IF op = "split_at" /\ stage = 1
       THEN res2' = v /\ stage' = 2 /\ pc' = "check" /\ UNCHANGED res
       ELSE /\ res' = IF op \in {"get_from", "get_up_to", "get_range"} THEN Some(v) ELSE v
            /\ pc' = "done" /\ UNCHANGED <<stage, res2>>

Next == Check \/ Unsafe
Spec == Init /\ [][Next]_vars

-----------------------------------------------------------------------------
Out == IF pan THEN Panic ELSE IF op = "split_at" THEN <<res2, res>> ELSE res

Refines == pc = "done" => /\ pan = RefPanics(op, s, a, b)
                          /\ ~pan => Out = RefVal(op, s, a, b)

\* precondition of from_utf8_unchecked: the window is in bounds and cut on char boundaries
UnsafePre == pc = "unsafe" => /\ win[1] <= win[2] /\ win[2] <= Len(s)
                              /\ Utf8Cut(s, win[1], win[2] - win[1])
=============================================================================
