-------------------------- MODULE SliceIndexLemma --------------------------
(***************************************************************************)
(* Width-independent justification of the guard step of SliceIndex.tla     *)
(* (C02 / C01), checked by TLAPS.  The TLC configurations explore an 8-bit *)
(* (traces: 16-bit) word; this lemma shows that the argument does not      *)
(* depend on the width:  P is 2^W, I is isize::MAX = 2^(W-1) - 1, only     *)
(* 0 <= I < P is used.                                                     *)
(*                                                                         *)
(*   let (rem, overflowed) = len.overflowing_sub(x);                       *)
(*   if !overflowed { from_raw_parts(ptr.offset(x as isize), rem) }        *)
(*                                                                         *)
(* If the slice [0, len) of elements of size esz fits the address space    *)
(* rule (len * esz <= isize::MAX) and the subtraction did not overflow,    *)
(* then x <= len, the offset x fits isize (as a count and in bytes), rem   *)
(* is len - x and the new slice ends where the old one ended.              *)
(***************************************************************************)
EXTENDS Integers, TLAPS

OvSubP(P, a, b) == IF a >= b THEN <<a - b, FALSE>> ELSE <<a - b + P, TRUE>>
AsSignedP(P, I, x) == IF x <= I THEN x ELSE x - P

THEOREM GuardLemma ==
    ASSUME NEW P \in Nat, NEW I \in Nat, I < P,
           NEW len \in 0..(P - 1), NEW x \in 0..(P - 1), NEW esz \in Nat,
           esz >= 1, len * esz <= I,
           OvSubP(P, len, x)[2] = FALSE
    PROVE  /\ x <= len
           /\ OvSubP(P, len, x)[1] = len - x
           /\ AsSignedP(P, I, x) = x
           /\ x * esz <= I
           /\ x * esz + (len - x) * esz = len * esz
<1>1. x <= len
  BY DEF OvSubP
<1>2. OvSubP(P, len, x)[1] = len - x
  BY <1>1 DEF OvSubP
<1>3. len <= len * esz
  OBVIOUS
<1>4. x <= I
  BY <1>1, <1>3
<1>5. AsSignedP(P, I, x) = x
  BY <1>4 DEF AsSignedP
<1>6. x * esz <= len * esz
  BY <1>1
<1>7. x * esz <= I
  BY <1>6
<1>8. x * esz + (len - x) * esz = len * esz
  OBVIOUS
<1> QED
  BY <1>1, <1>2, <1>5, <1>7, <1>8

(* zero-sized elements: no byte offset is ever formed (esz = 0), any length up to usize::MAX is allowed *)
THEOREM GuardLemmaZst ==
    ASSUME NEW P \in Nat, NEW len \in 0..(P - 1), NEW x \in 0..(P - 1),
           OvSubP(P, len, x)[2] = FALSE
    PROVE  x <= len /\ OvSubP(P, len, x)[1] = len - x /\ x * 0 = 0
  BY DEF OvSubP
=============================================================================
