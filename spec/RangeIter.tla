------------------------------ MODULE RangeIter ------------------------------
(***************************************************************************)
(* C09: iteration of start..end, start..=end and start.. for the integer    *)
(* types and char (konst_kernel::into_iter::range_into_iter + step_kk).     *)
(*                                                                          *)
(* State = the struct's fields (start, end) + fwd (FALSE = the *Rev type).  *)
(*  M : increment / decrement return (finished_inclusive,                   *)
(*      finished_exclusive, overflowed, next); the exclusive iterators test *)
(*      finished_exclusive, the inclusive ones finished_inclusive and park  *)
(*      the iterator at (MAX, MIN) when the step overflowed; char steps     *)
(*      hop the surrogate gap.                                              *)
(*  R : the abstract remaining set of values; next yields its minimum,      *)
(*      next_back its maximum, None (forever) when it is empty.             *)
(***************************************************************************)
EXTENDS Common, TLC

CONSTANTS MinV, MaxV,      \* value domain of the type
          IsChar,          \* TRUE: the domain has the surrogate gap 0xD800..0xDFFF
          Starts, Ends     \* bounds explored

VARIABLES kind, start, end, fwd, hist
vars == <<kind, start, end, fwd, hist>>
View == <<kind, start, end, fwd>>

InDom(v) == MinV <= v /\ v <= MaxV /\ (IsChar => ~(55296 <= v /\ v <= 57343))

-----------------------------------------------------------------------------
(* M: step_kk::increment / decrement *)
StepRet(fi, fe, ov, nx) == [fin_incl |-> fi, fin_excl |-> fe, overflowed |-> ov, next |-> nx]

Increment(s, e) ==
    LET nx == IF IsChar /\ s = 55295 THEN <<57344, FALSE>>
              ELSE IF s = MaxV THEN <<MinV, TRUE>>          \* overflowing_add wraps; char: (0, true)
              ELSE <<s + 1, FALSE>>
    IN StepRet(s > e, s >= e, nx[2], nx[1])
Decrement(s, e) ==
    LET nx == IF IsChar /\ e = 57344 THEN <<55295, FALSE>>
              ELSE IF e = MinV THEN <<MaxV, TRUE>>
              ELSE <<e - 1, FALSE>>
    IN StepRet(e < s, e <= s, nx[2], nx[1])

Res(item, ns, ne) == [item |-> item, start |-> ns, end |-> ne]
NoRes == Res(None, start, end)

\* `next` of the forward types
FrontStep ==
    CASE kind = "excl" ->
            LET r == Increment(start, end) IN
            IF r.fin_excl THEN NoRes ELSE Res(Some(start), r.next, end)
      [] kind = "incl" ->
            LET r == Increment(start, end) IN
            IF r.fin_incl THEN NoRes
            ELSE IF r.overflowed THEN Res(Some(start), MaxV, MinV) ELSE Res(Some(start), r.next, end)
      [] kind = "from" ->
            \* stepping past the maximum is a debug_assert in konst: outside the property
            IF start = MaxV THEN NoRes ELSE Res(Some(start), Increment(start, MaxV).next, end)

\* `next_back` of the forward types (RangeFrom has none)
BackStep ==
    CASE kind = "excl" ->
            LET r == Decrement(start, end) IN
            IF r.fin_excl THEN NoRes ELSE Res(Some(r.next), start, r.next)
      [] kind = "incl" ->
            LET r == Decrement(start, end) IN
            IF r.fin_incl THEN NoRes
            ELSE IF r.overflowed THEN Res(Some(end), MaxV, MinV) ELSE Res(Some(end), start, r.next)
      [] kind = "from" -> NoRes

DoNext     == IF fwd THEN FrontStep ELSE BackStep
DoNextBack == IF fwd THEN BackStep ELSE FrontStep

Init == /\ kind \in {"excl", "incl", "from"} /\ start \in Starts
        /\ end \in (IF kind = "from" THEN {MaxV} ELSE Ends)
        /\ fwd = TRUE /\ hist = <<>>

Take(r, name) == /\ IsSome(r.item) /\ start' = r.start /\ end' = r.end
                 /\ hist' = Append(hist, name) /\ UNCHANGED <<kind, fwd>>
Next_    == Take(DoNext, "next")
NextBack == kind # "from" /\ Take(DoNextBack, "next_back")
Rev      == kind # "from" /\ fwd' = ~fwd /\ hist' = Append(hist, "rev") /\ UNCHANGED <<kind, start, end>>
Next == Next_ \/ NextBack \/ Rev
Spec == Init /\ [][Next]_vars

-----------------------------------------------------------------------------
(* R *)
\* successor / predecessor inside the value domain, defined from InDom alone (the surrogate gap is 2048 wide)
Succ(v) == IF InDom(v + 1) THEN v + 1
           ELSE CHOOSE w \in (v + 1)..(v + 2049) : InDom(w) /\ \A x \in (v + 1)..(w - 1) : ~InDom(x)
Pred(v) == IF InDom(v - 1) THEN v - 1
           ELSE CHOOSE w \in (v - 2049)..(v - 1) : InDom(w) /\ \A x \in (w + 1)..(v - 1) : ~InDom(x)

\* The values a std range still has to yield form an interval of the domain: empty, or lowest..highest.
\* (start.. is compared below MaxV only: stepping past the maximum is outside the property.)
Interval(e, l, h) == [empty |-> e, lo |-> l, hi |-> h]
EmptyI == Interval(TRUE, 0, 0)
Abs(k, s, e) == CASE k = "excl" -> IF s >= e THEN EmptyI ELSE Interval(FALSE, s, Pred(e))
                  [] k = "incl" -> IF s > e THEN EmptyI ELSE Interval(FALSE, s, e)
                  [] k = "from" -> IF s >= MaxV THEN EmptyI ELSE Interval(FALSE, s, Pred(MaxV))
DropLowest(i)  == IF i.lo = i.hi THEN EmptyI ELSE Interval(FALSE, Succ(i.lo), i.hi)
DropHighest(i) == IF i.lo = i.hi THEN EmptyI ELSE Interval(FALSE, i.lo, Pred(i.hi))
Remaining == Abs(kind, start, end)

TypeOK == InDom(start) /\ InDom(end)

\* exploration bound for large domains (char): histories up to MaxDepth steps from every initial pair
CONSTANT MaxDepth
DepthBound == Len(hist) <= MaxDepth

Refines ==
    /\ FrontStep.item = (IF Remaining.empty THEN None ELSE Some(Remaining.lo))
    /\ ~Remaining.empty => Abs(kind, FrontStep.start, FrontStep.end) = DropLowest(Remaining)
    /\ kind # "from" =>
          /\ BackStep.item = (IF Remaining.empty THEN None ELSE Some(Remaining.hi))
          /\ ~Remaining.empty => Abs(kind, BackStep.start, BackStep.end) = DropHighest(Remaining)
=============================================================================
