----------------------------- MODULE SliceIndex -----------------------------
(***************************************************************************)
(* C02 (+ the from_raw_parts preconditions of C01): slice indexing,        *)
(* splitting, chunk and array views.                                       *)
(*                                                                         *)
(* A slice is abstracted to its length `len` and element size `esz`; a     *)
(* result is the *window* <<off, n>> (0-based first element, element       *)
(* count) it views, or None.  usize is the W-bit word of Common.tla.       *)
(*                                                                         *)
(*  R : what `slice.get(range)` / the documented clamps give.              *)
(*  M : the code: guard step (`len.overflowing_sub(start)`), then the      *)
(*      unsafe step `from_raw_parts(ptr.offset(start as isize), rem)`      *)
(*      whose preconditions (Mem: InBounds, OffsetFitsIsize) are           *)
(*      invariants of the "unsafe" states.                                 *)
(***************************************************************************)
EXTENDS Common, TLC

CONSTANTS W,            \* word size of the model
          Lens,         \* slice lengths explored for sized elements
          ZstLens,      \* slice lengths explored for zero-sized elements (may exceed isize::MAX)
          Sizes,        \* element sizes (bytes) > 0
          Ns            \* chunk / array lengths N >= 1

Idx == 0..WordMax(W)

Ops1 == {"get", "get_from", "get_up_to", "slice_from", "slice_up_to", "split_at", "split_at_mut"}
Ops2 == {"get_range", "slice_range"}
OpsN == {"as_chunks", "as_rchunks", "try_into_array"}
\* the pattern-matching accessors that konst still provides (only the `_mut` ones; std has the others in const)
Ops0 == {"first_mut", "last_mut", "split_first_mut", "split_last_mut"}
Ops  == Ops1 \cup Ops2 \cup OpsN \cup Ops0

Win(off, n) == <<off, n>>
Whole(len)  == Win(0, len)
Empty       == Win(0, 0)
\* empty windows are all equal as far as the property is concerned
Norm(w) == IF w[2] = 0 THEN Empty ELSE w

-----------------------------------------------------------------------------
(* R *)
GetFrom(len, a)      == IF a <= len THEN Some(Win(a, len - a)) ELSE None
GetUpTo(len, b)      == IF b <= len THEN Some(Win(0, b)) ELSE None
GetRange(len, a, b)  == IF a <= b /\ b <= len THEN Some(Norm(Win(a, b - a))) ELSE None
SliceFrom(len, a)    == IF a <= len THEN Norm(Win(a, len - a)) ELSE Empty
SliceUpTo(len, b)    == IF b <= len THEN Norm(Win(0, b)) ELSE Whole(len)
\* documented: end beyond the length is the length; start beyond (the clamped) end gives the empty slice
SliceRange(len, a, b) == LET e == MinOf(b, len) IN IF a <= e THEN Norm(Win(a, e - a)) ELSE Empty
SplitAt(len, at)     == IF at <= len THEN <<Norm(Win(0, at)), Norm(Win(at, len - at))>> ELSE <<Whole(len), Empty>>
Get(len, i)          == IF i < len THEN Some(i) ELSE None
\* chunk views: number of arrays, window of the arrays, window of the remainder
AsChunks(len, N)     == [arrs |-> len \div N, awin |-> Norm(Win(0, (len \div N) * N)),
                         rem |-> Norm(Win((len \div N) * N, len % N))]
AsRChunks(len, N)    == [arrs |-> len \div N, awin |-> Norm(Win(len % N, (len \div N) * N)),
                         rem |-> Norm(Win(0, len % N))]
TryIntoArray(len, N) == IF len = N THEN Ok(Whole(len)) ELSE Err(1)
\* element index, or <<element index, window of the rest>>
FirstMut(len)        == IF len > 0 THEN Some(0) ELSE None
LastMut(len)         == IF len > 0 THEN Some(len - 1) ELSE None
SplitFirstMut(len)   == IF len > 0 THEN Some(<<0, Norm(Win(1, len - 1))>>) ELSE None
SplitLastMut(len)    == IF len > 0 THEN Some(<<len - 1, Norm(Win(0, len - 1))>>) ELSE None

Ref(op, len, a, b) ==
    CASE op = "get"         -> Get(len, a)
      [] op = "get_from"    -> IF IsSome(GetFrom(len, a)) THEN Some(Norm(GetFrom(len, a).some)) ELSE None
      [] op = "get_up_to"   -> IF IsSome(GetUpTo(len, a)) THEN Some(Norm(GetUpTo(len, a).some)) ELSE None
      [] op = "get_range"   -> GetRange(len, a, b)
      [] op = "slice_from"  -> SliceFrom(len, a)
      [] op = "slice_up_to" -> SliceUpTo(len, a)
      [] op = "slice_range" -> SliceRange(len, a, b)
      [] op \in {"split_at", "split_at_mut"} -> SplitAt(len, a)
      [] op = "as_chunks"   -> AsChunks(len, a)
      [] op = "as_rchunks"  -> AsRChunks(len, a)
      [] op = "try_into_array" -> TryIntoArray(len, a)
      [] op = "first_mut"       -> FirstMut(len)
      [] op = "last_mut"        -> LastMut(len)
      [] op = "split_first_mut" -> SplitFirstMut(len)
      [] op = "split_last_mut"  -> SplitLastMut(len)

-----------------------------------------------------------------------------
(* M *)
VARIABLES op, len, esz, a, b,
          cur,      \* window of the slice the current step operates on (get_range / slice_range chain two steps)
          stage,    \* which of the chained primitive steps is running
          ghost,    \* <<byte offset passed to ptr.offset, element count passed to from_raw_parts>> of the last unsafe step
          pc, res, res2
vars == <<op, len, esz, a, b, cur, stage, ghost, pc, res, res2>>

Init ==
    /\ op \in Ops
    /\ \/ esz \in Sizes /\ len \in Lens /\ len * esz <= IWordMax(W)
       \/ esz = 0 /\ len \in ZstLens
    /\ IF op \in OpsN THEN a \in Ns /\ b = 0
       ELSE IF op \in Ops0 THEN a = 0 /\ b = 0
       ELSE IF op \in Ops2 THEN a \in Idx /\ b \in Idx
       ELSE a \in Idx /\ b = 0
    /\ cur = Whole(len) /\ stage = 1 /\ ghost = <<0, 0>> /\ pc = "guard" /\ res = None /\ res2 = None

\* The primitive executed at this stage: "from" (with argument x) or "upto"
Prim ==
    CASE op \in {"get_from", "slice_from"}  -> <<"from", a>>
      [] op \in {"get_up_to", "slice_up_to"} -> <<"upto", a>>
      [] op \in {"get_range", "slice_range"} -> IF stage = 1 THEN <<"upto", b>> ELSE <<"from", a>>
      [] op = "split_at"                     -> IF stage = 1 THEN <<"upto", a>> ELSE <<"from", a>>
      [] OTHER -> <<"none", 0>>

Fallible == op \in {"get_from", "get_up_to", "get_range"}

\* `let (rem, overflowed) = slice.len().overflowing_sub(x); if overflowed { return on_overflow }`
Guard ==
    /\ pc = "guard" /\ Prim[1] # "none"
    /\ UNCHANGED <<op, len, esz, a, b, stage, res2>>
    /\ LET x  == Prim[2]
           sb == OvSub(W, cur[2], x)
       IN IF sb[2]
          THEN \* on_overflow: None | &[] | the slice itself
               /\ res' = IF Fallible THEN None
                         ELSE IF Prim[1] = "from" THEN Empty ELSE cur
               /\ pc' = (IF Fallible THEN "done" ELSE "next")
               /\ UNCHANGED <<cur, ghost>>
          ELSE \* unsafe step: from_raw_parts(ptr.offset(x as isize), rem)  |  from_raw_parts(ptr, x)
               /\ ghost' = IF Prim[1] = "from" THEN <<(cur[1] * esz) + AsSigned(W, x) * esz, sb[1]>>
                           ELSE <<cur[1] * esz, x>>
               /\ res' = IF Prim[1] = "from" THEN Win(cur[1] + x, sb[1]) ELSE Win(cur[1], x)
               /\ pc' = "unsafe" /\ UNCHANGED cur

AfterUnsafe ==
    /\ pc = "unsafe"
    /\ pc' = "next" /\ UNCHANGED <<op, len, esz, a, b, cur, stage, ghost, res, res2>>

\* chaining: get_range = get_up_to(end) then get_from(start) on the shortened slice;
\* slice_range likewise; split_at = (slice_up_to(at), slice_from(at)) both on the original
Chain ==
    /\ pc = "next"
    /\ UNCHANGED <<op, len, esz, a, b, ghost>>
    /\ IF op \in {"get_range", "slice_range"} /\ stage = 1
       THEN cur' = res /\ stage' = 2 /\ pc' = "guard" /\ UNCHANGED <<res, res2>>
       ELSE IF op = "split_at" /\ stage = 1
       THEN res2' = res /\ stage' = 2 /\ pc' = "guard" /\ UNCHANGED <<res, cur>>
       ELSE /\ pc' = "done" /\ UNCHANGED <<cur, stage, res2>>
            /\ res' = IF Fallible THEN Some(res) ELSE res

\* operations that are not built from the two primitives
Direct ==
    /\ pc = "guard" /\ Prim[1] = "none"
    /\ UNCHANGED <<op, len, esz, a, b, cur, stage>>
    /\ CASE op = "get" ->
              /\ res' = IF len > a THEN Some(a) ELSE None
              /\ pc' = "done" /\ UNCHANGED <<ghost, res2>>
         [] op = "split_at_mut" ->
              IF a > len THEN res2' = Whole(len) /\ res' = Empty /\ pc' = "done" /\ UNCHANGED ghost
              ELSE \* from_raw_parts_mut(ptr.offset(0), at), from_raw_parts_mut(ptr.offset(at as isize), len - at)
                   /\ res2' = Win(0, a) /\ res' = Win(a, len - a)
                   /\ ghost' = <<AsSigned(W, a) * esz, len - a>> /\ pc' = "unsafe"
         [] op = "as_chunks" ->
              \* split_at(this, arrs_len * N) then from_raw_parts(arrs_in.as_ptr() as *const [T;N], arrs_len)
              /\ res' = [arrs |-> len \div a, awin |-> Win(0, (len \div a) * a),
                         rem |-> Win((len \div a) * a, len - (len \div a) * a)]
              /\ ghost' = <<0, (len \div a) * a>> /\ pc' = "unsafe" /\ UNCHANGED res2
         [] op = "as_rchunks" ->
              /\ res' = [arrs |-> len \div a, awin |-> Win(len % a, len - (len % a)), rem |-> Win(0, len % a)]
              /\ ghost' = <<(len % a) * esz, (len \div a) * a>> /\ pc' = "unsafe" /\ UNCHANGED res2
         [] op = "try_into_array" ->
              IF len = a THEN res' = Ok(Whole(len)) /\ ghost' = <<0, a>> /\ pc' = "unsafe" /\ UNCHANGED res2
              ELSE res' = Err(1) /\ pc' = "done" /\ UNCHANGED <<ghost, res2>>
         [] op \in Ops0 ->
              \* slice patterns `[first, rem @ ..]` / `[rem @ .., last]`: no unsafe code
              /\ res' = IF len = 0 THEN None
                        ELSE CASE op = "first_mut" -> Some(0)
                               [] op = "last_mut" -> Some(len - 1)
                               [] op = "split_first_mut" -> Some(<<0, Win(1, len - 1)>>)
                               [] op = "split_last_mut" -> Some(<<len - 1, Win(0, len - 1)>>)
              /\ pc' = "done" /\ UNCHANGED <<ghost, res2>>

Next == Guard \/ AfterUnsafe \/ Chain \/ Direct
Spec == Init /\ [][Next]_vars

-----------------------------------------------------------------------------
\* Mem preconditions of from_raw_parts / ptr.offset at every unsafe step:
\*  the byte offset is non-negative, fits isize, and offset + n*esz stays inside the allocation
UnsafePre ==
    pc = "unsafe" =>
        /\ 0 <= ghost[1] /\ ghost[1] <= IWordMax(W)
        /\ ghost[1] + ghost[2] * esz <= len * esz
        /\ (esz = 0 => ghost[1] = 0)

NormRes(r) ==
    CASE op \in {"get_from", "get_up_to", "get_range"} -> IF IsSome(r) THEN Some(Norm(r.some)) ELSE None
      [] op \in {"slice_from", "slice_up_to", "slice_range"} -> Norm(r)
      [] op \in {"as_chunks", "as_rchunks"} -> [arrs |-> r.arrs, awin |-> Norm(r.awin), rem |-> Norm(r.rem)]
      [] op \in {"split_first_mut", "split_last_mut"} -> IF IsSome(r) THEN Some(<<r.some[1], Norm(r.some[2])>>) ELSE None
      [] OTHER -> r

\* the value the caller observes
Out == IF op \in {"split_at", "split_at_mut"} THEN <<Norm(res2), Norm(res)>> ELSE NormRes(res)

Refines == pc = "done" => Out = Ref(op, len, a, b)

\* the two halves handed out by split_at_mut never overlap and cover the slice
SplitDisjoint ==
    pc = "done" /\ op = "split_at_mut" => res2[1] + res2[2] <= res[1] \/ res[2] = 0
=============================================================================
