------------------------------ MODULE MacroGuards ------------------------------
(***************************************************************************)
(* C17 (iterator DSL and parser_method! guards).  A decision model: which   *)
(* invocations the macros must reject at compile time.  (The destructure!   *)
(* guards are the pipeline of Destructure.tla.)                             *)
(*                                                                          *)
(* DSL invocation = source, a list of method names (adapters then at most   *)
(* one consumer), optionally one method given a spurious argument, or one   *)
(* unknown method name.  Rejected iff two reversing methods occur, a method *)
(* is unknown, or an argument-less method receives arguments                *)
(* (__assert_first_rev!, __cim_method_not_found_err!, __cim_error_on_args!).*)
(*                                                                          *)
(* parser_method! invocation = form, pattern kind, default branch present.  *)
(* Rejected iff the pattern is not a string literal (the proc macro only    *)
(* accepts literals / concat! / stringify!) or a branching form lacks the   *)
(* `_ =>` default.                                                          *)
(***************************************************************************)
EXTENDS Common, TLC

ReversingMethods == {"rev", "rfind", "rfold", "rposition"}
ArglessMethods   == {"copied", "enumerate", "flatten", "rev", "count", "next"}
KnownAdapters    == {"copied", "enumerate", "filter", "filter_map", "flat_map", "flatten", "map", "rev", "skip", "skip_while",
                     "take", "take_while", "zip"}
KnownConsumers   == {"all", "any", "count", "find", "find_map", "fold", "for_each", "next", "nth", "position",
                     "rfind", "rfold", "rposition"}

DslDesc(ms, spurious, unknown) == [methods |-> ms, spurious |-> spurious, unknown |-> unknown]
NReversing(ms) == Cardinality({q \in 1..Len(ms) : ms[q] \in ReversingMethods})
DslRejected(d) == \/ NReversing(d.methods) >= 2
                  \/ d.unknown # 0
                  \/ (d.spurious # 0 /\ d.methods[d.spurious] \in ArglessMethods)

PmForms == {"strip_prefix", "strip_suffix", "find_skip", "rfind_skip", "trim_start_matches", "trim_end_matches"}
Branching(f) == f \in {"strip_prefix", "strip_suffix", "find_skip", "rfind_skip"}
PmDesc(f, pat, dflt) == [form |-> f, pat |-> pat, dflt |-> dflt]
\* pattern kinds: what the proc macro accepts is a string literal token (plain, raw), concat!(..) or stringify!(..)
\* of such; everything else is a non-literal pattern - also when it merely *starts* with a string literal
\* (range patterns "a"..="z", "a"..), which the pinned tree accepted (finding F10)
\* fwd_*: the invocation sits inside a user macro_rules! that forwards fragments (literal / expr / pat / tt) into the
\* pattern position; a forwarded fragment arrives wrapped in an invisible group, possibly nested
LiteralPats    == {"literal", "raw", "concat", "stringify", "fwd_literal", "fwd_expr_lit", "fwd_pat_lit", "fwd_tt_lit", "fwd_lit_alt"}
NonLiteralPats == {"ident", "expr", "range", "range_from", "char", "bytes", "int", "path", "binding", "ref",
                   "fwd_range", "fwd_range_from", "fwd_pat_range", "fwd_expr_const"}
PmRejected(d) == d.pat \notin LiteralPats \/ (Branching(d.form) /\ ~d.dflt)
=============================================================================
