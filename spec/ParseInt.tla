------------------------------- MODULE ParseInt -------------------------------
(***************************************************************************)
(* C12: integer / bool parsing (Parser::parse_{u,i}{8..128,size},          *)
(* primitive::parse_*, parse_bool).                                        *)
(*                                                                         *)
(*  R : PrefixParse of ParseIntRef.tla (optional '-' for signed types,     *)
(*      longest run of ASCII digits, value must fit; whole-string parse =  *)
(*      prefix parse that consumes everything).                            *)
(*  M : the parse_integer! macro, one action per loop iteration: sign,     *)
(*      mandatory first digit, then `overflowing_mul(10) |                 *)
(*      overflowing_add(d)` in the *unsigned twin* type (overflow <=> the  *)
(*      new number exceeds the twin's MAX; numbers are digit sequences so  *)
(*      that 128-bit types are exact), then the MAX_POS / MAX_NEG test.    *)
(***************************************************************************)
EXTENDS Common, ParseIntRef, ParseIntTypes, TLC

CONSTANTS Inputs        \* set of byte strings

VARIABLES ty, s, pos, num, neg, pc, res
vars == <<ty, s, pos, num, neg, pc, res>>

Init == /\ ty \in IntTypes /\ s \in Inputs
        /\ pos = 0 /\ num = <<>> /\ neg = FALSE /\ pc = "sign" /\ res = None

Byte(i) == s[i + 1]
HasByte(i) == i < Len(s)

Sign == /\ pc = "sign" /\ UNCHANGED <<ty, s, num, res>>
        /\ IF ty.signed /\ HasByte(pos) /\ Byte(pos) = 45
           THEN neg' = TRUE /\ pos' = pos + 1 ELSE UNCHANGED <<neg, pos>>
        /\ pc' = "first"

FirstDigit == /\ pc = "first" /\ UNCHANGED <<ty, s, neg>>
              /\ IF HasByte(pos) /\ IsDigit(Byte(pos))
                 THEN num' = StripZeros(<<Byte(pos) - 48>>) /\ pos' = pos + 1 /\ pc' = "loop" /\ UNCHANGED res
                 ELSE res' = None /\ pc' = "done" /\ UNCHANGED <<num, pos>>       \* throw!(ParseInteger)

DigitStep == /\ pc = "loop" /\ UNCHANGED <<ty, s, neg>>
             /\ IF HasByte(pos) /\ IsDigit(Byte(pos))
                THEN LET nx == StripZeros(num \o <<Byte(pos) - 48>>) IN
                     IF LeqDigits(nx, ty.umax)
                     THEN num' = nx /\ pos' = pos + 1 /\ UNCHANGED <<pc, res>>
                     ELSE res' = None /\ pc' = "done" /\ UNCHANGED <<num, pos>>   \* overflowed_mul | overflowed_add
                ELSE pc' = "sign2" /\ UNCHANGED <<num, pos, res>>

ApplySign == /\ pc = "sign2" /\ UNCHANGED <<ty, s, pos, num, neg>>
             /\ IF ~ty.signed \/ LeqDigits(num, IF neg THEN ty.maxneg ELSE ty.maxpos)
                THEN res' = Some([neg |-> neg /\ num # <<>>, mag |-> num, consumed |-> pos]) /\ pc' = "done"
                ELSE res' = None /\ pc' = "done"

Next == Sign \/ FirstDigit \/ DigitStep \/ ApplySign
Spec == Init /\ [][Next]_vars

\* the sign of zero is not observable ("-0" parses to 0)
NormR(r) == IF IsNone(r) THEN None ELSE Some([neg |-> r.some.neg /\ r.some.mag # <<>>, mag |-> r.some.mag, consumed |-> r.some.consumed])
Ref(t, x) == NormR(PrefixParse(x, t.signed, t.maxpos, t.maxneg))

Refines == pc = "done" => res = Ref(ty, s)
ReadsInBounds == pos <= Len(s)

\* bool
BoolRef(x) == IF IsPrefixOf(<<116, 114, 117, 101>>, x) THEN Some([val |-> TRUE, consumed |-> 4])
              ELSE IF IsPrefixOf(<<102, 97, 108, 115, 101>>, x) THEN Some([val |-> FALSE, consumed |-> 5])
              ELSE None
=============================================================================
