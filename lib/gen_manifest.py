#!/usr/bin/env python3
"""Regenerates MANIFEST.json from the table below (kept in one place so it is always valid)."""
import json
import os
import sys

HERE = os.path.dirname(os.path.dirname(os.path.abspath(__file__)))
sys.path.insert(0, os.path.join(HERE, "lib"))

BASELINE_OFF = ("cd /repo && cargo nextest run --workspace --no-fail-fast --test-threads 8 --offline "
                "|| cargo test --workspace --no-fail-fast --offline")

# property -> (technique, level text, level note, design ref)
CLAIMED = {
    "C04": ("TLA+ spec (Matcher.tla: search machine refines Find/RFind) model-checked by TLC; every explored "
            "(op,haystack,needle) replayed into all pattern kinds of the real functions; recorded random calls "
            "validated against the trace spec Trace_Matcher.tla",
            "Exhaustive within bounds: all haystacks over {a,b} (<=8 bytes quick, <=10 thorough) x all needles "
            "(<=4/<=5) and {a,b,n-tilde} strings, every operation and pattern kind compared with the "
            "specification's reference on the real code; beyond the bounds 20k-320k recorded calls on 40-byte "
            "haystacks built from needle fragments must be accepted by the specification.",
            "Trusted: TLC, the reference operators (cross-checked against real std on every vector), the "
            "harness' result rendering. Not covered: inputs outside bounds and not hit by the random traces.",
            "DESIGN §5 C04"),
}

CLAIMED["C05"] = (
    "TLA+ spec (StripTrim.tla: strip / trim-matches / whitespace loops refine the declarative reference) "
    "model-checked by TLC; all explored (op,input,pattern) replayed into every pattern kind of string:: and "
    "slice::bytes_*; recorded random calls validated against Trace_StripTrim.tla",
    "Exhaustive within bounds: all inputs over {a,b} (<=7/<=8 bytes) x patterns (<=3/<=4) and multi-byte "
    "strings, every ASCII byte 0..127 at each end and inside for whitespace trimming, compared with the "
    "specification's reference on the real code; plus 20k-320k recorded calls validated by the trace spec.",
    "Trusted: TLC, reference operators (cross-checked against std strip_*/trim_*_matches/trim_ascii*), harness "
    "rendering. trim_matches with a pattern whose two trimming orders differ is not compared.",
    "DESIGN §5 C05")

CLAIMED["C02"] = (
    "TLA+ spec (SliceIndex.tla: guard step + unsafe step with ghost offset/extent, 8-bit word model) model-checked "
    "by TLC against std's slice.get semantics; reference vectors replayed on shared and _mut variants for five "
    "element types incl. ZST; recorded random calls validated against Trace_SliceIndex.tla (16-bit word)",
    "Exhaustive in the model: every index value of an 8-bit usize (all 256) for every length <= 6 and element "
    "sizes {0,1,2,8}, index pairs over the boundary neighbourhoods (thorough: 80x80 values); the from_raw_parts "
    "preconditions are invariants of every unsafe step. On the real code: 14.6k reference vectors x 2 "
    "mutabilities x 5 element types, indices projected to the 0 / len / isize::MAX / usize::MAX neighbourhoods, "
    "plus 20k-320k recorded calls on slices up to 200 elements.",
    "Trusted: TLC; the order/sign-preserving projection of model indices to 64-bit values; pointer arithmetic of "
    "the harness' window rendering. Element types beyond the five listed are not exercised (the code is generic).",
    "DESIGN §5 C02")
CLAIMED["C03"] = (
    "TLA+ spec (StrIndex.tla: forgiving/strict boundary predicate, byte-slice primitive, from_utf8_unchecked step "
    "with Utf8Cut invariant) model-checked by TLC against str.get / is_char_boundary / the documented clamps; "
    "vectors replayed into konst::string; recorded random calls validated against Trace_StrIndex.tla",
    "Exhaustive within bounds: all strings of <=3 (thorough <=4) characters over a 1/2/3/4-byte alphabet, every "
    "index 0..len+2 and the isize/usize boundary values, every (start,end) pair incl. start>end; results "
    "(value, None, or panic) compared with the specification on the real code; plus recorded calls on random "
    "strings up to 14 characters including U+07FF/U+0800/U+FFFF.",
    "Trusted: TLC, Utf8.tla (cross-checked against std on every vector), catch_unwind as the panic observer.",
    "DESIGN §5 C03")

CLAIMED["C13"] = (
    "TLA+ spec of the Parser struct (Parser.tla: remainder window, separately kept start_offset, direction, "
    "split flag; one action per method x argument) model-checked by TLC over the complete finite state graph; "
    "every distinct state replayed on the real Parser via its witness path and all 45 operations compared; "
    "long recorded histories validated against Trace_Parser.tla",
    "Exhaustive within bounds: every operation history (any length; the graph is finite) over all strings of "
    "<=4 characters of {a , n-tilde space 1} and two bases is model-checked for start_offset = base+lo, "
    "end offset, char boundaries and error offset/direction; every distinct state of the <=3-character graph "
    "(12k states, 865k compared outcomes; thorough: <=4 characters) is reproduced on the real Parser and "
    "compared after the path and after each further operation; 15k-160k recorded events of random histories on "
    "strings up to ~100 bytes must be accepted action by action with all invariants evaluated at every step.",
    "Trusted: TLC, the reference string functions (bound to the code by C04/C05/C12), the harness' projection "
    "(position of the remainder inside the original by pointer). Offsets above u32::MAX are not covered.",
    "DESIGN §5 C13")
CLAIMED["C14"] = (
    "same Parser.tla state machine; the transition function (new remainder, returned piece/value, Ok/Err) is "
    "defined from the reference string functions and the split protocols are TLC invariants (SplitProtocol); "
    "replay of every distinct state x operation on the real Parser; trace validation of recorded histories",
    "Exhaustive within bounds over an alphabet including '-' and a digit (prefix integer/bool parsing, split "
    "family with one- and two-byte delimiters, strip/trim/find): each of the 20k states x 45 operations "
    "(1.46M outcomes) is compared on the real code for returned value, remainder and failure; the split / "
    "terminator protocols (pieces of str::split then SplitExhausted) hold in every reachable model state.",
    "Trusted: as C13. Error kinds are compared only for split/rsplit (the only ones the property names). Empty "
    "delimiters are outside the property.",
    "DESIGN §5 C14")

CLAIMED["C16"] = (
    "TLA+ spec (Cmp.tla: eq/cmp element loops refine = and the lexicographic order; order laws as TLC ASSUMEs) "
    "model-checked by TLC; every explored pair replayed through all eq_*/cmp_* instantiations, Option twins and "
    "const_eq!/const_cmp!/_for!/assertc_* forms; recorded random comparisons validated against Trace_Cmp.tla",
    "Exhaustive within bounds: all pairs of sequences over three ordered digits up to length 3 (thorough 4), all "
    "pairs of nested sequences (slices of str / byte slices), all 49 pairs of the seven anchor values "
    "MIN..MAX of every integer type, bool, char (around the surrogate gap), NonZero, Ordering, all Option "
    "combinations and range pairs: ~365k comparisons on the real code per quick run, plus antisymmetry and "
    "Equal<=>eq monitors; 20k-320k recorded comparisons on longer sequences accepted by the trace spec.",
    "Trusted: TLC; the strictly increasing digit->value maps; std guard (Ord/PartialEq) on every vector.",
    "DESIGN §5 C16")

CLAIMED["C07"] = (
    "TLA+ spec (Chars.tla: boundary scans, shift-and-mask decoder, start_offset bookkeeping vs the characters of "
    "the string per Utf8.tla) model-checked by TLC incl. a complete scalar sweep as ASSUME; every distinct state "
    "replayed on chars/char_indices/Rev types; recorded histories validated by Trace_Chars.tla; complete "
    "from_u32/encode_utf8/decode sweep of the real code validated block-wise by Trace_CharSweep.tla",
    "Complete enumeration for the conversions: every u32 in 0..0x120000 (+ boundary values to u32::MAX) is run "
    "through konst's from_u32, encode_utf8 and chars() and checked by TLC against the arithmetic definition of "
    "UTF-8. Iterators: all strings of <=4 characters over {a, n-tilde, U+0800, crab} and <=3 over nine "
    "class-boundary characters, every front/back/rev interleaving (complete state graph), item, byte offset and "
    "as_str compared at every state; plus 16k-240k recorded events on random strings of arbitrary scalars.",
    "Trusted: TLC, Utf8.tla's Encode/Decode (std-guarded on replay), harness rendering.",
    "DESIGN §5 C07")
CLAIMED["C08"] = (
    "TLA+ spec (SliceIter.tla: index arithmetic of the 8 iterator kinds x forward/Rev refines std's partition of "
    "the remaining slice) model-checked by TLC over the complete state graph; every distinct state replayed on "
    "the real iterators (steps taken on copies); recorded long histories validated by Trace_SliceIter.tla",
    "Exhaustive within bounds: slice lengths 0..7 (thorough 0..10), all sizes 1..len+1, every interleaving of "
    "next / next_back / rev for iter, iter_copied, windows, chunks, rchunks, chunks_exact, rchunks_exact and "
    "array_chunks (N<=5): yielded window, termination step and as_slice/remainder compared at every state; plus "
    "20k-320k recorded steps on slices up to 200 elements with sizes up to len+1.",
    "Trusted: TLC; items identified by address window over distinct u16 elements; std guard on every state.",
    "DESIGN §5 C08")

CLAIMED["C06"] = (
    "TLA+ spec (Split.tla: State enum machine of Split/RSplit/SplitTerminator/RSplitTerminator refines the piece "
    "lists defined from Find/RFind) model-checked by TLC over the complete state graph; every distinct state "
    "replayed (next, next_back, remainder; &str and char delimiters); recorded iterations validated by "
    "Trace_Split.tla",
    "Exhaustive within bounds: all strings of <=4 (thorough 5) characters over {a , n-tilde} x delimiters "
    "{\",\" \"a\" \",,\" \"a,\" \"n-tilde\" \"\" \"aa\"}: the model's sequences equal str::split / rsplit / "
    "split_terminator and the mirrored rsplit_terminator rule at every initial state, every step yields the "
    "head of the remaining piece list and the remainder is the not-yet-split part; each of the ~12k states is "
    "reproduced on the real iterators; 12k-190k recorded steps on random strings up to 40 bytes.",
    "Trusted: TLC, MatcherRef (bound to the code by C04), harness rendering. Mixed front/back histories are "
    "explored for one-character delimiters only.",
    "DESIGN §5 C06")
CLAIMED["C09"] = (
    "TLA+ spec (RangeIter.tla: increment/decrement flag records, (MAX,MIN) parking, surrogate-gap hops refine the "
    "abstract remaining interval) model-checked by TLC for every bound pair of an 8-bit unsigned and signed type "
    "and char anchors; every pair replayed on all 12 integer types + char through into_iter!/for_each!; "
    "recorded histories on u16/i16/char validated by Trace_RangeIter.tla over the true domains",
    "Complete for u8 and i8: all 65 536 (start,end) pairs x {.., ..=} plus start.. (front item, back item, Rev "
    "types, and complete forward/backward/reversed/alternating/for_each! sequences for ranges of <=12 values): "
    "8.4M comparisons per quick run; the same behaviours projected into the MIN/0/MAX neighbourhoods of the 10 "
    "wider integer types; char pairs within 6 of 0, 0xD7FF/0xE000, 0x10FFFF with histories up to 14 steps; "
    "24k-270k recorded next/next_back/rev events on random u16/i16/char ranges.",
    "Trusted: TLC; the projection for wider types (the stepping code is one macro body per type); std guard. "
    "start.. is compared below T::MAX only.",
    "DESIGN §5 C09")

CLAIMED["C12"] = (
    "TLA+ spec (ParseInt.tla: parse_integer! loop on digit sequences - sign, mandatory first digit, overflow in the "
    "unsigned twin, MAX_POS/MAX_NEG test - refines PrefixParse for all 12 types) model-checked by TLC; every "
    "(type,string) vector replayed through Parser::parse_*, StdParser::parse_with (with a base offset) and "
    "primitive::parse_*; recorded random parses validated exactly by Trace_ParseInt.tla",
    "Exhaustive within bounds: all token strings of <=3 (thorough 4) tokens over {0,1,2,5,9,-,+,a,space,non-ASCII "
    "digit}, every value 0..300 (thorough 0..1000) in seven textual forms, and ~600 generated strings around "
    "MAX / MAX_POS / |MIN| of every width (+-2, leading zeros, extra digit, suffixes), for each of the 12 types "
    "(44k vectors, 218k comparisons incl. failure-consumes-nothing and offset monitors); bool over 585 strings; "
    "16k-240k recorded parses of random digit strings up to 45 digits validated exactly (128-bit included).",
    "Trusted: TLC; digit-sequence arithmetic of ParseIntRef.tla (std-guarded via str::parse on every vector "
    "without a leading '+'); usize/isize assumed 64-bit.",
    "DESIGN §5 C12")

CLAIMED["C20"] = (
    "TLA+ specs (Concat.tla: two-phase length/fill machine of the concat/join macros refines std concat/join with "
    "in-bounds and UTF-8 invariants; CStr.tla: first-nul scan and pointer walk refine std's constructors) "
    "model-checked by TLC; TLC-emitted argument-list descriptors turned into const programs using the real macros, "
    "compiled and run; CStr vectors replayed into konst::ffi::cstr",
    "Exhaustive within bounds: every list of 0..3 (thorough 4) pieces over {\"\", a, a 2+3-byte pair, a 4-byte char} "
    "as str and as char elements, separators {\"\", \",\", a 6-byte string, a 2-byte char} in str and char form, "
    "through str_concat!, str_join!, string::from_iter!, slice_concat! expanded in const items (935 programs per "
    "quick run, evaluated by rustc's const evaluator); all byte strings of <=5 (thorough 7) bytes over "
    "{0,'a',0xFF,0xC3,0xB1} through from_bytes_until_nul / from_bytes_with_nul / to_bytes / to_bytes_with_nul / "
    "to_str compared with the specification and std.",
    "Trusted: TLC, the program generator (one line per case; a case that does not compile is reported), rustc.",
    "DESIGN §5 C20")

CLAIMED["C15"] = (
    "TLA+ specs with a ghost ownership ledger (Ownership.tla: ArrayConsumer/ArrayBuilder index arithmetic, every "
    "unsafe read checked against the owner map; Destructure.tla: expansion pipeline FieldCheck/TypeAssert/"
    "DropAssert/Reads over program descriptors) model-checked by TLC; every container state replayed with a "
    "drop-ledger element type; every accepted destructure! descriptor compiled and run with ledger fields",
    "Exhaustive within bounds: all histories of next / next_back / as_slice / as_mut_slice / clone / drop / "
    "assert_is_empty / push / build / len / is_full over one or two containers, N = 0..3 (15k states quick, 242k "
    "thorough): the window contents, the values handed to the caller in order, the exact set of already-dropped "
    "values and the payload bits are compared at every state, and after running to completion every value has been "
    "dropped exactly once; destructure!: every accepted shape (braced / tuple struct / tuple / array with bind, _, "
    "bound and unbound rest at every position, arity 0..3) in plain, type-annotated, packed and generic flavours "
    "and inside a const fn (655 programs).",
    "Trusted: TLC; the harness' ledger type; rustc. Panicking paths are excluded as the property states. Tuples "
    "beyond arity 3 and nested aggregates are not generated.",
    "DESIGN §5 C15")

CLAIMED["C11"] = (
    "TLA+ spec (ArrayBuild.tla: the generated loops of map!/from_fn!, map_!/from_fn_! and collect_const! with "
    "per-slot init bits and closures that leave by break/continue/return/panic; invariant AssumePre at every "
    "assume_init; the unguarded variant is refuted) model-checked by TLC; each explored (macro form, length, exit, "
    "position) behaviour turned into programs for Copy and non-Copy elements whose observed ending is compared "
    "with the model's",
    "Exhaustive within bounds: lengths 0..3 x five closure exits x every exit position x four macros x two "
    "element kinds (524 programs) + collect_const! and ArrayBuilder over-/under-filling (runtime and const fn): a "
    "hostile closure must end in panic / non-termination (3 s timeout in an isolated process) / leaving the "
    "function / rejection by rustc and never in a returned array; well-behaved closures must return std's array.",
    "Trusted: TLC, rustc, the generator templates (exit keyed on the element). Uninitialised memory is observed "
    "only through a wrong/garbage value or crash (Miri part is under C01).",
    "DESIGN §5 C11")

CLAIMED["C10"] = (
    "TLA+ spec (IterDsl.tla: the generated loop machine - hoisted source direction, per-adapter counters, "
    "emit/continue/break outcomes, nested flat_map loop with its direction - versus Std on sequences, with std's "
    "DoubleEnded/ExactSize typing judgment and konst's one-reversal rule) checked by TLC for every chain in the "
    "comparison domain; each (chain, consumer) emitted as a program that runs the konst macro and the identical "
    "std chain",
    "Exhaustive within bounds at the model level: all type-correct chains of depth <=3 over 11 parametrised adapters "
    "x 14 consumers (17.4k (chain, consumer) pairs x 5 inputs) satisfy loop-machine = Std except on the known "
    "shape. On the real code: every depth-<=2 pair (1583 programs) and 1200 depth-3 pairs (all adapter-interaction "
    "chains + a seeded sample; thorough: all 15 876) are compiled and run through eval!/for_each!/collect_const! on "
    "five inputs and compared with the specification; the identical std chain is the sanity guard.",
    "Trusted: TLC, rustc, the generator's closure library. Known finding F8 (take/skip/zip before a reversing "
    "method) is reported as KNOWN-FINDING when konst's value equals the hoisted-rev model's value exactly.",
    "DESIGN §5 C10, §6 F8")

CLAIMED["C19"] = (
    "TLA+ spec (OptRes.tla: each option::/result:: macro expansion as its match arms with a fallback-called flag "
    "refines the std method; min/max tie rules and rebind component assignment as reference operators) "
    "model-checked by TLC; every descriptor turned into programs in closure and function-path form that run the "
    "real macro next to the std method",
    "Exhaustive within bounds: 9 option:: + 9 result:: macros x both variants x payloads 0..2 x closure / path "
    "forms (value and whether the fallback closure ran; the std method evaluated in the same program as guard), "
    "option::flatten!, try_!/try_opt! vs `?`, every rebind pattern of arity 1..5 (thorough 1..6) with each position "
    "a place / let / typed let / _ through try_rebind! and rebind_if_ok! (680 programs), and min!/max!/_by/_by_key "
    "on all key pairs with distinguishable identities: 848 programs per quick run.",
    "Trusted: TLC, rustc, the generator's closure library. Arity 6 rebinds are not generated.",
    "DESIGN §5 C19")

CLAIMED["C18"] = (
    "TLA+ spec (ParserMethod.tla: the proc macro's literal decoder on source code points - escapes, \\u{..} with "
    "underscores, line continuations, raw strings, concat! - and the strip / find / trim match loops versus the "
    "property's rules) checked by TLC for every (form, alternative list) over every input; each pair emitted as a "
    "program that uses the real macro and also reports rustc's bytes of every literal",
    "Exhaustive within bounds: 6 macro forms x 20 alternative lists (22 literal tokens: every escape kind, "
    "\\u{1_F980}, continuations followed by space / tab+newline / NBSP / form feed, raw strings with 0-2 hashes and "
    "embedded quotes, concat! incl. mixed raw parts, empty literal, first-listed-wins pairs like \"a\"|\"ab\") x all "
    "input strings of <=2 (thorough 3) characters over a 12-character alphabet: branch taken, start and end offset "
    "compared for each of the 18.8k (program, input) pairs; rustc's decoding of each literal must equal the "
    "specification's decoder.",
    "Trusted: TLC, rustc (reference for literal bytes), the generator. Literal and alternative tables are fixed "
    "(lib/gen_parsermethod.py); stringify! patterns are not generated.",
    "DESIGN §5 C18")

CLAIMED["C17"] = (
    "TLA+ decision models (Destructure.tla pipeline FieldCheck/TypeAssert/DropAssert whose removal breaks the "
    "ownership-ledger invariants; MacroGuards.tla for the iterator DSL and parser_method!) enumerated by TLC; "
    "every descriptor turned into a single program judged by rustc against the real macros (accept / reject)",
    "Program-family enumeration: 2187 programs per run - every destructure! descriptor (4 shapes x arity 0..3 (+4,8,"
    "15,16) x bind/_/rest patterns; misuse: Drop type, reference, one field too few / too many, `..` in struct or "
    "tuple, two rests) in plain / annotated / type-alias form, every DSL invocation of depth <=2 adapters + consumer "
    "with two reversing methods, an unknown method or a spurious argument, every parser_method! form x {literal, "
    "const ident, parenthesised expr} x default present/absent; each misuse must be rejected and each minimally "
    "different valid control accepted.",
    "Trusted: rustc's verdict (diagnostic text not compared), the generators. The TLA+ part is a decision model; "
    "the claim is 'every program of the generated family', not every program. Known finding F9: zero-field "
    "aggregates are not guarded (sound, recorded).",
    "DESIGN §5 C17")

CLAIMED["C01"] = (
    "the unsafe-block preconditions (in-bounds / offset-fits-isize, UTF-8 cut on boundaries, scalar value before "
    "from_u32_unchecked, all slots initialised before assume_init, slot owned before every read or drop, nul scan "
    "inside the CStr) are TLC invariants of the implementation-shaped TLA+ models; the behaviours TLC explored are "
    "replayed on the real code natively with memory/UTF-8/drop monitors, under Miri, and as const items through "
    "rustc's const evaluator",
    "Design level: 15 models (slice/str indexing with every index of an 8-bit word, search, trim, split, chars, slice "
    "iterators, ranges, Parser, comparison, integer parsing, CStr, ownership ledger, array building, concatenation) "
    "checked exhaustively within small bounds with their unsafe preconditions as invariants. Code level: 169k "
    "behaviours replayed natively (every returned slice/str must be a window of its argument, valid UTF-8 on char "
    "boundaries, every value dropped exactly once), a seeded stratified sample of 1.5k behaviours / 11k calls "
    "(thorough: 18k behaviours) interpreted by Miri without undefined behaviour, and 2k (thorough 10k) vectors "
    "evaluated inside const items.",
    "Trusted: Miri's and the const evaluator's model of undefined behaviour; TLC. UB freedom is established for "
    "the replayed behaviours and for the bounded models, not for inputs outside every bound; unsafe fns of "
    "konst::{ptr, maybe_uninit, manually_drop} are outside the property's scope. Macro forms wrapping unsafe "
    "blocks are exercised in const context by C11 / C15 / C20's programs.",
    "DESIGN §5 C01")

NOT_YET = {}

# additions made after the seeded-change rounds (DESIGN §14.5); appended to the level text
ADDENDA = {
    "C01": "Also: the Mem.tla wrapper model (MaybeUninit / ManuallyDrop / NonNull), zero-sized Drop elements in the "
           "ownership replay, width-edge UTF-8 characters in the Split / StrIndex vectors.",
    "C02": "Chunk / array sizes N in {1..8,10,12} with lengths up to 25, first_mut / last_mut / split_first_mut / "
           "split_last_mut included.",
    "C03": "A second string family over the characters at the ends of every encoded width (lead bytes 7F C2 DF E0 ED EE "
           "EF F0 F4, continuation bytes 80 and BF) and a third with one character for every possible lead byte C2..F4.",
    "C04": "Pair families with byte-anagram characters and width-edge characters; recorded calls also use char patterns, "
           "needles of 7..65 bytes with near misses, and one-byte needles in 8..40-byte haystacks over bytes differing in "
           "one bit.  Long family: k false candidates before the occurrence for k in 0..40 and around 64 / 128 / 256, "
           "occurrences beyond offset 255, needles of 12 / 13 / 255..257 bytes with a near miss; self-overlap family (every {a,b} "
           "needle of 8 bytes and distinct-tail needles, preceded by a proper prefix / followed by a proper suffix).",
    "C05": "Pattern families with byte-anagram and width-edge characters; recorded calls with patterns of 7..65 bytes "
           "and 8..40 repetitions.  Long family: k repetitions at either end for k in 0..40 and around 64 / 128 / 256, "
           "patterns of 12 / 13 / 255..257 bytes, also evaluated in const items.",
    "C06": "Self-overlapping delimiters of three bytes and an empty/width-edge-character family in the model; recorded "
           "histories with delimiters of 5..12 bytes at the start / end and as near misses; delimiters of 5 / 12 / 13 / "
           "255..257 bytes with one-byte near misses in the model.",
    "C07": "Recorded strings with ASCII runs of 7..64 bytes and a wide character near either end; from_u32 on every "
           "power of two from 2^21 and on scalar values with high bits added; two strings of 258 / 259 bytes with every "
           "front / back interleaving.",
    "C08": "Sizes standing for isize::MAX / usize::MAX (invariant ArithInv: no intermediate exceeds the length), "
           "array_chunks N in {1,2,3,4,5,8,16}, and zero-sized slices of isize::MAX+1 / usize::MAX elements three steps deep "
           "(lengths compared, projection guarded by std).",
    "C10": "The flatten adapter (map-to-range then flatten) is part of the grammar.",
    "C11": "collect_const! over every depth-2 and depth-3 adapter chain of IterDsl.tla.",
    "C13": "A second alphabet family (byte-sharing 3-byte characters, U+FFFF, U+07FF) and the parser_method! forms as "
           "Parser actions; beyond the listed property the error kind and Display / panic text of every failing operation "
           "are compared as extras (never a violation).",
    "C14": "Same second alphabet family and parser_method! actions as C13.",
    "C15": "Clone::clone_from between two live containers is an action; the container behaviours are also replayed with a "
           "zero-sized Drop element type (counts) and a Copy element type (copy()); packed braced and "
           "tuple structs are destructured inside const fn (unaligned field reads judged by the const evaluator).",
    "C16": "Kind `record`: a user aggregate compared through impl_cmp! / try_equal! / coerce_to_cmp!; recorded slices of "
           "9..80 elements.",
    "C17": "23 parser_method! pattern kinds (9 literal-valued, 14 non-literal incl. range patterns that start with a "
           "literal and fragments forwarded by a user macro_rules!), &mut references and the generic type form of "
           "destructure!.  Thorough: the DSL grammar has all 13 adapters (chains of length <= 2, length 3 over six of "
           "them) and all 13 consumers (13 000 programs).",
    "C18": "The macro forms are additionally applied to every state of a Parser.tla graph and compared on remainder, "
           "offsets and direction.",
    "C19": "min!/max!/_by/_by_key on every primitive type and on slices, strings, arrays, Option and Ordering with four "
           "anchor values per type; every option / result macro "
           "on a payload with a counting destructor (same number of destructor runs as std).",
    "C20": "Pieces and separators of 7..17 bytes with a multi-byte character at the start / end / straddling byte 8.",
}
for _pid, _extra in ADDENDA.items():
    _t = CLAIMED[_pid]
    CLAIMED[_pid] = (_t[0], _t[1] + " " + _extra, _t[2], _t[3])


def main():
    props = [json.loads(l) for l in open(os.path.join(HERE, "properties.jsonl"))]
    na_path = os.path.join(HERE, "lib", "not_applicable.json")
    na = json.load(open(na_path)) if os.path.exists(na_path) else {}
    checks = []
    not_app = []
    for p in props:
        pid = p["id"]
        if pid in CLAIMED:
            tech, text, note, ref = CLAIMED[pid]
            checks.append({
                "property_id": pid,
                "quick_cmd": "./check %s --tier quick" % pid,
                "thorough_cmd": "./check %s --tier thorough" % pid,
                "evidence_file": "/verif/evidence/%s.json" % pid,
                "replay_cmd_template": "./check %s --replay {path}" % pid,
                "engine": "tla-trace",
                "level_claimed": {"category": "model_checking", "text": text, "design_ref": ref},
                "level_note": note,
                "technique": tech,
            })
        else:
            not_app.append({"property_id": pid, "reason": na.get(pid, "check not built yet in this session; "
                            "the TLA+ module planned for it is described in DESIGN.md §5 (no claim is made)")})
    man = {
        "version": 1,
        "setup_cmd": "./check setup",
        "hooks": {
            "guard": "konst_verif",
            "enable": "the harness passes --cfg konst_verif through harness/.cargo/config.toml; no source hooks exist "
                      "(every abstract state variable is observable through the public API)",
            "baseline_off_cmd": BASELINE_OFF,
            "source_commits": [],
            "add_only": True,
        },
        "engines": [{
            "name": "tla-trace", "path": "/verif/check",
            "serves_properties": sorted(CLAIMED),
            "kind_free_text": "explicit TLA+ specification (spec/*.tla) model-checked with TLC; two-way conformance: "
                              "TLC-emitted behaviours replayed into the real crate (harness/), and executions "
                              "recorded from the real crate validated against trace specifications (spec/trace)",
        }],
        "checks": checks,
        "not_applicable": not_app,
        "notes": "See DESIGN.md. Exit 2 of a check = tool error (never a violation).",
    }
    with open(os.path.join(HERE, "MANIFEST.json"), "w") as f:
        json.dump(man, f, indent=1)
    print("MANIFEST.json: %d checks, %d not_applicable" % (len(checks), len(not_app)))

if __name__ == "__main__":
    main()
