"""C01 const-evaluation programs: vectors of the pure modules become `const` items, so rustc's const evaluator
(which detects undefined behaviour like Miri does) executes the real const fns."""
import json
import progs


def opt_str(v):
    return "None" if "none" in v else "Some(%s)" % progs.rust_str(v["some"])


def valid_utf8(b):
    try:
        bytes(b).decode("utf-8")
        return True
    except Exception:
        return False


def matcher(r):
    h, n, op, exp = r["h"], r["n"], r["op"], r["exp"]
    if not (valid_utf8(h) and valid_utf8(n)):
        # byte-slice twins
        if op in ("find", "rfind"):
            e = "None" if "none" in exp else "Some(%d)" % exp["some"]
            return ("const R: bool = matches!(konst::slice::bytes_%s(%s, %s as &[u8]), %s); format!(\"{}\", R)"
                    % (op, progs.rust_bytes(h), progs.rust_bytes(n), e)), "true"
        return None
    hs, ns = progs.rust_str(h), progs.rust_str(n)
    if op in ("find", "rfind"):
        e = "None" if "none" in exp else "Some(%d)" % exp["some"]
        return "const R: bool = matches!(konst::string::%s(%s, %s), %s); format!(\"{}\", R)" % (op, hs, ns, e), "true"
    if op in ("contains", "rcontains"):
        return "const R: bool = konst::string::%s(%s, %s); format!(\"{}\", R)" % (op, hs, ns), "true" if exp else "false"
    if op in ("find_skip", "find_keep", "rfind_skip", "rfind_keep"):
        if "none" in exp:
            return "const R: bool = konst::string::%s(%s, %s).is_none(); format!(\"{}\", R)" % (op, hs, ns), "true"
        return ("const R: &str = match konst::string::%s(%s, %s) { Some(x) => x, None => \"<none>\" }; format!(\"{:?}\", R.as_bytes())"
                % (op, hs, ns)), str(list(exp["some"]))
    if op in ("split_once", "rsplit_once"):
        if "none" in exp:
            return "const R: bool = konst::string::%s(%s, %s).is_none(); format!(\"{}\", R)" % (op, hs, ns), "true"
        return ("const R: (&str, &str) = match konst::string::%s(%s, %s) { Some(x) => x, None => (\"<\", \">\") }; "
                "format!(\"{:?}|{:?}\", R.0.as_bytes(), R.1.as_bytes())" % (op, hs, ns)), "%s|%s" % (list(exp["some"][0]), list(exp["some"][1]))
    return None


def striptrim(r):
    s, n, op, exp = r["s"], r["n"], r["op"], r["exp"]
    if not (valid_utf8(s) and valid_utf8(n)):
        return None
    ss, ns = progs.rust_str(s), progs.rust_str(n)
    if op in ("starts_with", "ends_with"):
        return "const R: bool = konst::string::%s(%s, %s); format!(\"{}\", R)" % (op, ss, ns), "true" if exp else "false"
    if op in ("strip_prefix", "strip_suffix"):
        if "none" in exp:
            return "const R: bool = konst::string::%s(%s, %s).is_none(); format!(\"{}\", R)" % (op, ss, ns), "true"
        return ("const R: &str = match konst::string::%s(%s, %s) { Some(x) => x, None => \"<none>\" }; format!(\"{:?}\", R.as_bytes())"
                % (op, ss, ns)), str(list(exp["some"]))
    if op in ("trim_start_matches", "trim_end_matches", "trim_matches"):
        return "const R: &str = konst::string::%s(%s, %s); format!(\"{:?}\", R.as_bytes())" % (op, ss, ns), str(list(exp))
    if op in ("trim", "trim_start", "trim_end"):
        return "const R: &str = konst::string::%s(%s); format!(\"{:?}\", R.as_bytes())" % (op, ss), str(list(exp))
    return None


def strindex(r, p8):
    s, a, b, op, exp = r["s"], p8(r["a"]), p8(r["b"]), r["op"], r["exp"]
    ss = progs.rust_str(s)
    if isinstance(exp, dict) and "panic" in exp:
        return None        # a panicking const item is a compile error by design; the panic cases are replayed natively
    if op == "is_char_boundary":
        return "const R: bool = konst::string::is_char_boundary(%s, %d); format!(\"{}\", R)" % (ss, a), "true" if exp else "false"
    if op in ("get_from", "get_up_to"):
        call = "konst::string::%s(%s, %d)" % (op, ss, a)
    elif op == "get_range":
        call = "konst::string::get_range(%s, %d, %d)" % (ss, a, b)
    elif op in ("str_from", "str_up_to"):
        return "const R: &str = konst::string::%s(%s, %d); format!(\"{:?}\", R.as_bytes())" % (op, ss, a), str(list(exp))
    elif op == "str_range":
        return "const R: &str = konst::string::str_range(%s, %d, %d); format!(\"{:?}\", R.as_bytes())" % (ss, a, b), str(list(exp))
    elif op == "split_at":
        return ("const R: (&str, &str) = konst::string::split_at(%s, %d); format!(\"{:?}|{:?}\", R.0.as_bytes(), R.1.as_bytes())"
                % (ss, a)), "%s|%s" % (list(exp[0]), list(exp[1]))
    else:
        return None
    if "none" in exp:
        return "const R: bool = %s.is_none(); format!(\"{}\", R)" % call, "true"
    return "const R: &str = match %s { Some(x) => x, None => \"<none>\" }; format!(\"{:?}\", R.as_bytes())" % call, str(list(exp["some"]))


def sliceindex(r, p8):
    if r["zst"]:
        return None
    op, ln, a, b, exp = r["op"], r["len"], p8(r["a"]), p8(r["b"]), r["exp"]
    arr = "&[%s]" % ", ".join("%du8" % (i + 1) for i in range(ln))
    elems = lambda w: [i + 1 for i in range(w[0], w[0] + w[1])]
    if op in ("get_from", "get_up_to", "get_range"):
        call = "konst::slice::%s(A, %s)" % (op, ("%d, %d" % (a, b)) if op == "get_range" else str(a))
        if "none" in exp:
            return "const A: &[u8] = %s; const R: bool = %s.is_none(); format!(\"{}\", R)" % (arr, call), "true"
        return ("const A: &[u8] = %s; const R: &[u8] = match %s { Some(x) => x, None => &[255] }; format!(\"{:?}\", R)" % (arr, call)), str(elems(exp["some"]))
    if op in ("slice_from", "slice_up_to", "slice_range"):
        call = "konst::slice::%s(A, %s)" % (op, ("%d, %d" % (a, b)) if op == "slice_range" else str(a))
        return "const A: &[u8] = %s; const R: &[u8] = %s; format!(\"{:?}\", R)" % (arr, call), str(elems(exp))
    if op == "split_at":
        return ("const A: &[u8] = %s; const R: (&[u8], &[u8]) = konst::slice::split_at(A, %d); format!(\"{:?}|{:?}\", R.0, R.1)" % (arr, a)), \
            "%s|%s" % (elems(exp[0]), elems(exp[1]))
    return None


def sliceindex_mut(r, p8, ety="u64"):
    """The `_mut` variants, split_at_mut and the chunk views inside a const item (lengths / first elements observed):
    the const evaluator rejects any out-of-bounds pointer arithmetic even when the result is never used."""
    if r["zst"]:
        return None
    op, ln, a, b, exp = r["op"], r["len"], p8(r["a"]), p8(r["b"]), r["exp"]
    init = "[%s]" % ", ".join("%d%s" % (i + 1, ety) for i in range(ln))
    decl = "let mut arr: [%s; %d] = %s; let s: &mut [%s] = &mut arr;" % (ety, ln, init, ety)
    elems = lambda w: [i + 1 for i in range(w[0], w[0] + w[1])]
    first = lambda w: (w[1], (w[0] + 1) if w[1] else 0)         # (length, first element or 0)
    obs = "(x.len(), if x.is_empty() { 0 } else { x[0] as usize })"
    if op in ("get_from", "get_up_to", "get_range"):
        call = "konst::slice::%s_mut(s, %s)" % (op, ("%d, %d" % (a, b)) if op == "get_range" else str(a))
        body = "const R: (usize, usize) = { %s match %s { Some(x) => %s, None => (99, 99) } }; format!(\"{:?}\", R)" % (decl, call, obs)
        return body, str((99, 99) if "none" in exp else first(exp["some"]))
    if op in ("slice_from", "slice_up_to", "slice_range"):
        call = "konst::slice::%s_mut(s, %s)" % (op, ("%d, %d" % (a, b)) if op == "slice_range" else str(a))
        body = "const R: (usize, usize) = { %s let x = %s; %s }; format!(\"{:?}\", R)" % (decl, call, obs)
        return body, str(first(exp))
    if op in ("split_at", "split_at_mut"):
        body = ("const R: (usize, usize, usize, usize) = { %s let (x, y) = konst::slice::split_at_mut(s, %d); "
                "(x.len(), if x.is_empty() { 0 } else { x[0] as usize }, y.len(), if y.is_empty() { 0 } else { y[0] as usize }) }; format!(\"{:?}\", R)" % (decl, a))
        return body, str(first(exp[0]) + first(exp[1]))
    if op in ("as_chunks", "as_rchunks") and 1 <= r["a"] <= 12:
        n = r["a"]
        call = "konst::slice::%s::<%s, %d>(s)" % (op, ety, n)
        arrs, rem = ("c.0", "c.1") if op == "as_chunks" else ("c.1", "c.0")
        body = ("const R: (usize, usize, usize) = { let arr: [%s; %d] = %s; let s: &[%s] = &arr; let c = %s; "
                "(%s.len(), %s.len(), if %s.is_empty() { 0 } else { %s[0][0] as usize }) }; format!(\"{:?}\", R)"
                % (ety, ln, init, ety, call, arrs, rem, arrs, arrs))
        return body, str((exp["arrs"], exp["rem"][1], (exp["awin"][0] + 1) if exp["arrs"] else 0))
    if op == "try_into_array" and 1 <= r["a"] <= 12:
        n = r["a"]
        body = ("const R: usize = { %s match konst::slice::try_into_array_mut::<%s, %d>(s) { Ok(x) => x[0] as usize, Err(_) => 99 } }; format!(\"{}\", R)"
                % (decl, ety, n))
        return body, str(1 if "ok" in exp else 99)
    return None


def cstr(r):
    b = r["b"]
    def one(fn, exp):
        if "none" in exp:
            return "const R: bool = konst::ffi::cstr::%s(%s).is_err(); format!(\"{}\", R)" % (fn, progs.rust_bytes(b)), "true"
        return ("const C: &std::ffi::CStr = match konst::ffi::cstr::%s(%s) { Ok(c) => c, Err(_) => panic!() }; "
                "const R: &[u8] = konst::ffi::cstr::to_bytes_with_nul(C); format!(\"{:?}\", R)" % (fn, progs.rust_bytes(b))), str(list(exp["some"]))
    return [one("from_bytes_until_nul", r["until"]), one("from_bytes_with_nul", r["with"])]


def parseint(r):
    ty, s, exp = r["ty"], r["s"], r["exp"]
    if ty == "bool" or not valid_utf8(s):
        return None
    ss = progs.rust_str(s)
    if "none" in exp:
        return "const R: bool = konst::Parser::new(%s).parse_%s().is_err(); format!(\"{}\", R)" % (ss, ty), "true"
    e = exp["some"]
    val = int("".join(str(d) for d in e["mag"]) or "0") * (-1 if e["neg"] else 1)
    return ("const R: (%s, usize) = match konst::Parser::new(%s).parse_%s() { Ok((v, p)) => (v, p.start_offset()), Err(_) => panic!() }; format!(\"{:?}\", R)"
            % (ty, ss, ty)), "(%d, %d)" % (val, e["consumed"])


def _rs(b):
    """Rust string literal of UTF-8 bytes (everything escaped)."""
    return '"' + "".join("\\u{%x}" % ord(ch) for ch in bytes(b).decode("utf-8")) + '"'


def _walk(path):
    out = []
    for op in path:
        if op == "rev":
            out.append("let it = it.rev();")
        else:
            out.append("let it = match it.%s() { Some((_, n)) => n, None => panic!(\"witness path ended early\") };" % op)
    return " ".join(out)


def split_const(r):
    """A split-iterator state reached inside a const block (every step is executed by the const evaluator), then the
    front item."""
    if not r["cn"]:
        return None
    ctor = {"split": "split", "split_terminator": "split_terminator", "rsplit_terminator": "rsplit_terminator"}[r["kind"]]
    body = ("const S: &str = %s; const D: &str = %s; const R: Option<&str> = { let it = konst::string::%s(S, D); %s "
            "match it.next() { Some((p, _)) => Some(p), None => None } }; format!(\"{:?}\", R.map(|x| x.as_bytes().to_vec()))"
            % (_rs(r["s"]), _rs(r["d"]), ctor, _walk(r["path"])))
    exp = "None" if "none" in r["next"] else "Some(%s)" % str(list(r["next"]["some"]))
    return body, exp


def chars_const(r):
    """chars / char_indices inside a const block: the unchecked u32 -> char cast is judged by the const evaluator."""
    ctor = r["kind"]
    outs = []
    for end in ("next", "next_back"):
        item = "Some((c, _)) => Some(c as u32)" if ctor == "chars" else "Some(((_, c), _)) => Some(c as u32)"
        body = ("const S: &str = %s; const R: Option<u32> = { let it = konst::string::%s(S); %s match it.%s() { %s, None => None } }; "
                "format!(\"{:?}\", R)" % (_rs(r["s"]), ctor, _walk(r["path"]), end, item))
        # a Rev iterator's next is the forward iterator's next_back: the emitted next / next_back are those of the current type
        e = r[end]
        exp = "None" if "none" in e else "Some(%d)" % e["some"][1]
        outs.append((body, exp))
    return outs
