"""Driver plumbing: TLC runner + output parser, harness builder/runner, known-findings filter,
evidence writer.  Exit codes: 0 held, 1 VIOLATION, 2 tool error (never reported as violation)."""
import json
import os
import re
import shutil
import subprocess
import sys
import time
from concurrent.futures import ThreadPoolExecutor

VERIF = os.path.dirname(os.path.dirname(os.path.abspath(__file__)))
REPO = os.environ.get("KONST_REPO", "/repo")
WORK = os.environ.get("VERIF_WORK") or os.path.join(VERIF, "work")
SPEC = os.path.join(VERIF, "spec")
HARNESS = os.path.join(VERIF, "harness")
TARGET = os.path.join(WORK, "target")
KH = os.path.join(TARGET, "release", "kharness")
# the same harness built with konst's `debug` feature (the properties hold for every feature configuration)
TARGET_DBG = os.path.join(WORK, "target-konst-debug")
KH_DBG = os.path.join(TARGET_DBG, "release", "kharness")
TLA_CP = "/opt/veriftools/tla/tla2tools.jar:/opt/veriftools/tla/CommunityModules-deps.jar"
TLA_LIB = os.pathsep.join(os.path.join(SPEC, d) for d in ("", "mc", "emit", "trace", "legacy"))


class ToolError(Exception):
    pass


def log(*a):
    print(*a, flush=True)


def ensure_dirs():
    for d in ("tlc", "vec", "trace", "replay", "prog"):
        os.makedirs(os.path.join(WORK, d), exist_ok=True)
    os.makedirs(os.path.join(VERIF, "evidence"), exist_ok=True)


# ----------------------------------------------------------------------------- TLC
COV_RE = re.compile(r"^<(\w+) line \d+, col \d+ to line \d+, col \d+ of module (\w+)>: (\d+):(\d+)", re.M)
STATES_RE = re.compile(r"(\d+) states generated, (\d+) distinct states found, (\d+) states left on queue")
DEPTH_RE = re.compile(r"The depth of the complete state graph search is (\d+)")


def run_tlc(spec_dir, module, cfg, env=None, workers=8, timeout=900, heap="6g", trace_mode=False,
            tag=None, coverage=True):
    """Run TLC on spec_dir/module.tla with spec_dir/cfg.  Returns a dict with the parsed summary."""
    ensure_dirs()
    tag = tag or (module + "-" + os.path.splitext(cfg)[0])
    metadir = os.path.join(WORK, "tlc", tag)
    shutil.rmtree(metadir, ignore_errors=True)
    e = dict(os.environ)
    if env:
        e.update({k: str(v) for k, v in env.items()})
    jopts = "-Xss1g"
    if trace_mode:
        jopts += " -Dtlc2.tool.queue.IStateQueue=StateDeque"
    e["JAVA_TOOL_OPTIONS"] = jopts
    tmpd = os.path.join(WORK, "tlc", "tmp-" + tag)
    shutil.rmtree(tmpd, ignore_errors=True)
    os.makedirs(tmpd, exist_ok=True)
    # -Xss on the command line too: the launcher's main thread (initial states, POSTCONDITION) does not take its stack
    # size from JAVA_TOOL_OPTIONS
    cmd = ["timeout", str(timeout), "java", "-Xss1g", "-XX:+UseParallelGC", "-Xmx" + heap, "-Djava.io.tmpdir=" + tmpd, "-cp", TLA_CP,
           "-DTLA-Library=" + TLA_LIB, "tlc2.TLC", "-workers", str(workers),
           "-metadir", metadir, "-cleanup", "-noGenerateSpecTE"]
    if coverage:
        cmd += ["-coverage", "1"]
    cmd += ["-config", cfg, module + ".tla"]
    t0 = time.time()
    p = subprocess.run(cmd, cwd=spec_dir, env=e, stdout=subprocess.PIPE, stderr=subprocess.STDOUT, text=True)
    wall = time.time() - t0
    out = p.stdout
    shutil.rmtree(metadir, ignore_errors=True)
    shutil.rmtree(tmpd, ignore_errors=True)
    r = {"module": module, "cfg": cfg, "rc": p.returncode, "wall_s": round(wall, 2), "out": out,
         "generated": 0, "distinct": 0, "depth": 0, "actions": {}, "ok": p.returncode == 0}
    m = STATES_RE.findall(out)
    if m:
        r["generated"], r["distinct"] = int(m[-1][0]), int(m[-1][1])
    m = DEPTH_RE.findall(out)
    if m:
        r["depth"] = int(m[-1])
    for name, mod, a, b in COV_RE.findall(out):
        # TLC prints the coverage block more than once; keep the last (final) numbers
        r["actions"][name] = int(b) if int(b) else int(a)
    if p.returncode == 124:
        raise ToolError("TLC timed out after %ss on %s/%s" % (timeout, module, cfg))
    r["invariant_violated"] = re.findall(r"Error: Invariant (\w+) is violated", out)
    r["postcondition_false"] = "Postcondition" in out and "is false" in out
    r["shape_mismatch_at"] = None
    if trace_mode and not r["ok"] and "Attempted to" in out:
        # The comparison of the machine's value with the logged value could not even be evaluated
        # (e.g. a logged {"panic":1} against an expected sequence): the two are certainly different.
        # Only accepted when the failing expression is the trace module's own comparison.
        fr = re.search(r"0\. Line \d+, column \d+ to line \d+, column \d+ in (Trace_\w+)", out)
        ls = re.findall(r"^/\\ (?:l|n) = (\d+)$", out, re.M)
        if fr and ls:
            r["shape_mismatch_at"] = int(ls[-1]) + 1
    if not r["ok"] and not r["invariant_violated"] and not r["postcondition_false"] and not r["shape_mismatch_at"]:
        raise ToolError("TLC failed (rc=%s) on %s/%s:\n%s" % (p.returncode, module, cfg, tail(out, 60)))
    return r


def tail(s, n):
    return "\n".join(s.splitlines()[-n:])


def sany_all():
    """Parse every specification module (setup)."""
    bad = []
    mods = []
    for d in ("", "mc", "emit", "trace", "legacy"):  # spec/proofs needs tlapm's own TLAPS.tla (see ./check proofs)
        dd = os.path.join(SPEC, d)
        if not os.path.isdir(dd):
            continue
        for f in sorted(os.listdir(dd)):
            if f.endswith(".tla"):
                mods.append((dd, f))

    def one(x):
        dd, f = x
        p = subprocess.run(["java", "-cp", TLA_CP, "-DTLA-Library=" + TLA_LIB, "tla2sany.SANY", f],
                           cwd=dd, stdout=subprocess.PIPE, stderr=subprocess.STDOUT, text=True)
        ok = p.returncode == 0 and "*** Errors" not in p.stdout and "Fatal errors" not in p.stdout
        return (f, ok, p.stdout)

    with ThreadPoolExecutor(8) as ex:
        for f, ok, out in ex.map(one, mods):
            if not ok:
                bad.append((f, tail(out, 15)))
    return len(mods), bad


# ----------------------------------------------------------------------------- harness
def build_harness():
    """(Re)build the conformance harness against /repo's current working tree (path dependency)."""
    ensure_dirs()
    global HARNESS
    if REPO != "/repo":
        # scratch mode (seeded-change trials): a copy of the harness whose path dependency points at KONST_REPO
        hc = os.path.join(WORK, "harness_copy")
        shutil.rmtree(hc, ignore_errors=True)
        shutil.copytree(os.path.join(VERIF, "harness"), hc)
        ct = open(os.path.join(hc, "Cargo.toml")).read().replace('path = "/repo/konst"', 'path = "%s/konst"' % REPO)
        open(os.path.join(hc, "Cargo.toml"), "w").write(ct)
        cfgp = os.path.join(hc, ".cargo", "config.toml")
        cfgt = open(cfgp).read().replace('target-dir = "../work/target"', 'target-dir = "%s"' % TARGET)
        open(cfgp, "w").write(cfgt)
        HARNESS = hc
    lock_src = os.path.join("/repo", "Cargo.lock")
    lock_dst = os.path.join(HARNESS, "Cargo.lock")
    if not os.path.exists(lock_dst) and os.path.exists(lock_src):
        shutil.copy(lock_src, lock_dst)
    e = dict(os.environ)
    e["CARGO_NET_OFFLINE"] = "true"
    t0 = time.time()
    p = subprocess.run(["cargo", "build", "--release", "--offline"], cwd=HARNESS, env=e,
                       stdout=subprocess.PIPE, stderr=subprocess.STDOUT, text=True)
    if p.returncode != 0:
        raise ToolError("harness build failed (does /repo still compile?):\n" + tail(p.stdout, 80))
    if not os.environ.get("VERIF_NO_DEBUG_FEATURE"):
        p = subprocess.run(["cargo", "build", "--release", "--offline", "--features", "konst_debug", "--target-dir", TARGET_DBG],
                           cwd=HARNESS, env=e, stdout=subprocess.PIPE, stderr=subprocess.STDOUT, text=True)
        if p.returncode != 0:
            raise ToolError("harness build with konst's `debug` feature failed:\n" + tail(p.stdout, 80))
    return round(time.time() - t0, 1)


def _limits():
    # a runaway loop in the code under test (e.g. an iterator that never ends) must fail fast
    import resource
    resource.setrlimit(resource.RLIMIT_AS, (8 << 30, 8 << 30))


def kh_replay(files, timeout=1800, kh=None):
    KH = kh or globals()["KH"]
    p = subprocess.run(["timeout", str(timeout), KH, "replay"] + list(files), stdout=subprocess.PIPE,
                       stderr=subprocess.PIPE, text=True, preexec_fn=_limits)
    if p.returncode < 0 or p.returncode in (101, 124, 132, 134, 135, 136, 137, 139):
        # the process died on a signal inside the code under test (e.g. SIGSEGV after an out-of-bounds
        # slice was produced): find the record it died on and report it as an observation
        e = dict(os.environ)
        e["KH_PROGRESS"] = "1"
        q = subprocess.run(["timeout", str(timeout), KH, "replay"] + list(files), stdout=subprocess.PIPE,
                           stderr=subprocess.PIPE, text=True, env=e, preexec_fn=_limits)
        last = [l for l in q.stderr.splitlines() if l.startswith("KH-LINE ")]
        if not last:
            raise ToolError("kh replay died (rc=%s) and the record could not be located" % p.returncode)
        rec = json.loads(last[-1][len("KH-LINE "):])
        return {"lines": 0, "checks": 0, "n_mismatch": 1, "n_ref_mismatch": 0, "per_op": {}, "notes": {},
                "ref_mismatches": [],
                "mismatches": [{"variant": "crash:" + str(rec.get("op", rec.get("m"))), "rec": rec,
                                "monitor": "the harness process died on a signal (rc=%s) while executing this record "
                                           "on the real code" % p.returncode}]}
    if p.returncode != 0:
        raise ToolError("kh replay failed rc=%s: %s" % (p.returncode, tail(p.stderr, 30)))
    try:
        return json.loads(p.stdout.strip().splitlines()[-1])
    except Exception as ex:
        raise ToolError("kh replay printed no summary: %s / %s" % (ex, tail(p.stdout, 5)))


def kh_record(module, seed, n_events, out, timeout=600):
    """Returns None, or a description when the recorder process died on a signal inside the code under test
    (an observation about the code, reported by the caller as a violation with the events recorded so far)."""
    p = subprocess.run(["timeout", str(timeout), KH, "record", module, str(seed), str(n_events), out],
                       stdout=subprocess.PIPE, stderr=subprocess.PIPE, text=True, preexec_fn=_limits)
    if p.returncode < 0 or p.returncode in (132, 134, 135, 136, 137, 139):
        return "the recorder process died on a signal (rc=%s) while driving the real code" % p.returncode
    if p.returncode != 0:
        raise ToolError("kh record %s failed rc=%s: %s" % (module, p.returncode, tail(p.stderr, 30)))
    return None


# ----------------------------------------------------------------------------- known findings
def load_known():
    path = os.path.join(VERIF, "known_findings.json")
    if not os.path.exists(path):
        return []
    with open(path) as f:
        return json.load(f).get("findings", [])


# ----------------------------------------------------------------------------- a check run
class Run:
    def __init__(self, pid, tier, seed, replay_only=False):
        self.pid, self.tier, self.seed = pid, tier, seed
        self.t0 = time.time()
        self.states = 0
        self.transitions = 0
        self.tlc_runs = []
        self.replayed_lines = 0
        self.replay_checks = 0
        self.trace_events = 0
        self.trace_files = 0
        self.programs = 0
        self.samples = []
        self.assumptions = []
        self.violations = []      # (record dict)
        self.known_hits = {}      # key -> count
        self.notes = {}
        self.per_op = {}
        self.exhaustive = False
        self.extra = {}
        self.known = [k for k in load_known() if k.get("property") == pid and k.get("status") == "known"]
        self.quiet = replay_only

    # ---- model checking
    def mc(self, module, cfg, spec_dir="mc", env=None, workers=8, timeout=900, heap="6g",
           need_actions=(), allow_unused=()):
        # the TLC scratch directories are private to this run: two properties may check the same module concurrently
        r = run_tlc(os.path.join(SPEC, spec_dir), module, cfg, env=env, workers=workers,
                    timeout=timeout, heap=heap,
                    tag="%s-%s-%s-%s-%d" % (self.pid, self.tier, module, os.path.splitext(cfg)[0], os.getpid()))
        self.states += r["distinct"]
        self.transitions += r["generated"]
        self.tlc_runs.append({k: r[k] for k in ("module", "cfg", "generated", "distinct", "depth", "wall_s", "actions")})
        log("  TLC %-28s %-22s %9d distinct %10d generated depth %3d  %6.1fs" %
            (module, cfg, r["distinct"], r["generated"], r["depth"], r["wall_s"]))
        if r["invariant_violated"] or r["postcondition_false"] or not r["ok"]:
            raise ToolError("SPEC-MODEL-VIOLATION in %s/%s (the implementation-shaped model does not refine "
                            "the reference; nothing is claimed about the code):\n%s" % (module, cfg, tail(r["out"], 80)))
        if r["distinct"] == 0:
            raise ToolError("TLC explored no state for %s/%s" % (module, cfg))
        # vacuity guard: every action of the model must have been taken
        for a in need_actions:
            if r["actions"].get(a, 0) == 0:
                raise ToolError("vacuity guard: action %s of %s never taken in %s" % (a, module, cfg))
        return r

    # ---- spec -> impl
    def replay(self, files, label=""):
        s = kh_replay(files)
        self.replayed_lines += s["lines"]
        self.replay_checks += s["checks"]
        for k, v in s["per_op"].items():
            self.per_op[k] = self.per_op.get(k, 0) + v
        for k, v in s.get("notes", {}).items():
            self.notes[k] = self.notes.get(k, 0) + v
        log("  replay %-24s %8d behaviours %9d comparisons  mismatches=%d ref-mismatches=%d" %
            (label or os.path.basename(files[0]), s["lines"], s["checks"], s["n_mismatch"], s["n_ref_mismatch"]))
        if s["n_ref_mismatch"]:
            raise ToolError("SPEC-REFERENCE-MISMATCH: the specification's reference disagrees with std on %d "
                            "vectors (spec error; nothing is claimed about the code). First: %s" %
                            (s["n_ref_mismatch"], json.dumps(s["ref_mismatches"][0])[:600]))
        for m in s["mismatches"]:
            self.add_violation({"kind": "vector", "detail": m, "records": [m.get("rec")]})
        # observations outside the listed properties (specification growth): reported, never a violation
        self.extra["beyond_property_comparisons"] = self.extra.get("beyond_property_comparisons", 0) + s.get("extra_checks", 0)
        for m in s.get("extra_mismatches", [])[:5]:
            log("  EXTRA-MISMATCH (behaviour modelled beyond the listed properties; not a violation): %s" % json.dumps(m)[:400])
            self.extra.setdefault("beyond_property_mismatches", []).append(m)
        self.extra["n_mismatch_total"] = self.extra.get("n_mismatch_total", 0) + s["n_mismatch"]
        # the same behaviours on the harness built with konst's `debug` feature
        if not os.environ.get("VERIF_NO_DEBUG_FEATURE") and os.path.exists(KH_DBG):
            d = kh_replay(files, kh=KH_DBG)
            log("  replay %-24s %8d behaviours %9d comparisons  mismatches=%d  (konst feature `debug`)" %
                (label or os.path.basename(files[0]), d["lines"], d["checks"], d["n_mismatch"]))
            self.extra["comparisons_with_konst_debug_feature"] = self.extra.get("comparisons_with_konst_debug_feature", 0) + d["checks"]
            for m in d["mismatches"]:
                m = dict(m, variant="feature debug: " + str(m.get("variant")))
                self.add_violation({"kind": "vector", "detail": m, "records": [m.get("rec")]})
        return s

    def sample_file(self, path, k=3):
        try:
            with open(path) as f:
                lines = f.readlines()
            if not lines:
                return
            idx = sorted(set([0, len(lines) // 2, len(lines) - 1]))[:k]
            for i in idx:
                self.samples.append(json.loads(lines[i]))
        except Exception:
            pass

    # ---- impl -> spec
    def record_and_validate(self, module, trace_module, cfg, n_files, n_events, heap="2g", timeout=900,
                            record_module=None, seed_list=None):
        files = []
        seeds = seed_list if seed_list is not None else [self.seed * 1000 + k for k in range(n_files)]
        n_files = len(seeds)
        for k in range(n_files):
            out = os.path.join(WORK, "trace", "%s-%s-%d.ndjson" % (self.pid, module, k))
            died = kh_record(record_module or module, seeds[k], n_events, out)
            if died:
                last = {}
                try:
                    ls = [l for l in open(out).readlines() if l.strip().endswith("}")]
                    last = json.loads(ls[-1]) if ls else {}
                except Exception:
                    pass
                self.add_violation({"kind": "trace", "module": record_module or module, "trace_module": trace_module,
                                    "cfg": cfg, "seed": seeds[k], "n_events": n_events, "records": [last],
                                    "detail": {"variant": "crash:record:" + (record_module or module), "monitor": died,
                                               "rec": last}})
                continue
            files.append((k, out))

        def one(x):
            k, path = x
            r = run_tlc(os.path.join(SPEC, "trace"), trace_module, cfg, env={"TRACE": path}, workers=1,
                        timeout=timeout, heap=heap, trace_mode=True, tag="%s-%s-%d" % (self.pid, trace_module, k),
                        coverage=False)
            return k, path, r

        with ThreadPoolExecutor(min(6, max(1, n_files))) as ex:
            results = list(ex.map(one, files))
        for k, path, r in results:
            with open(path) as f:
                lines = f.readlines()
            n = len(lines)
            self.states += r["distinct"]
            self.transitions += r["generated"]
            if r["invariant_violated"]:
                raise ToolError("SPEC-MODEL-VIOLATION while validating %s: invariant %s\n%s" %
                                (path, r["invariant_violated"], tail(r["out"], 60)))
            if r["ok"]:
                self.trace_events += n
                self.trace_files += 1
                if k == 0 and lines:
                    self.samples.append({"trace_event": json.loads(lines[min(3, n - 1)])})
                continue
            flat = " ".join(r["out"].split())
            m = re.search(r'"TRACE-REJECTED at event", (\d+),', flat)
            if r.get("shape_mismatch_at"):
                at = r["shape_mismatch_at"]
            elif not m:
                raise ToolError("trace validation of %s failed without a rejection report:\n%s" % (path, tail(r["out"], 60)))
            else:
                at = int(m.group(1))
            self.trace_events += at - 1
            rec = json.loads(lines[at - 1])
            self.add_violation({"kind": "trace", "module": record_module or module, "trace_module": trace_module,
                                "cfg": cfg, "seed": seeds[k], "n_events": n_events,
                                "rejected_event": at, "records": [rec],
                                "detail": {"variant": "trace:" + str(rec.get("ev")), "rec": rec}})
        log("  trace  %-24s %d files, %d events accepted so far" % (trace_module, self.trace_files, self.trace_events))

    # ---- violations / known findings
    def match_known(self, v):
        for k in self.known:
            try:
                if known_matches(k, v):
                    return k
            except Exception:
                pass
        return None

    def add_violation(self, v):
        k = self.match_known(v)
        if k is not None:
            self.known_hits[k["key"]] = self.known_hits.get(k["key"], 0) + 1
            return
        self.violations.append(v)

    # ---- finish
    def finish(self, level="model_checking", rule=None):
        wall = round(time.time() - self.t0, 2)
        for k in self.known:
            if self.known_hits.get(k["key"]):
                log("KNOWN-FINDING: property=%s %s (%d occurrences this run; key=%s)" %
                    (self.pid, k["what"], self.known_hits[k["key"]], k["key"]))
        vio_paths = []
        # group violations by variant so that one defect prints one line
        groups = {}
        for v in self.violations:
            key = (v["kind"], (v.get("detail") or {}).get("variant", "?"))
            groups.setdefault(key, []).append(v)
        for n, (key, vs) in enumerate(sorted(groups.items(), key=lambda kv: str(kv[0]))):
            if n >= 8:
                break
            path = os.path.join(WORK, "replay", "%s-%s-%d.json" % (self.pid, self.tier, n))
            first = vs[0]
            doc = {"property": self.pid, "kind": first["kind"], "variant": key[1], "count_in_group": len(vs),
                   "records": [x["records"][0] for x in vs[:20]], "first": first, "seed": self.seed}
            with open(path, "w") as f:
                json.dump(doc, f, indent=1)
            vio_paths.append(path)
        cov = {
            "states": self.states, "transitions": self.transitions,
            "traces_validated_against_impl": self.replayed_lines + self.trace_events + self.programs,
            "samples": self.samples[:8] or [{"note": "no sample"}],
            "replayed_behaviours": self.replayed_lines, "replay_comparisons": self.replay_checks,
            "trace_events_validated": self.trace_events, "trace_files": self.trace_files,
            "programs": self.programs,
            "tlc_runs": self.tlc_runs, "per_operation_comparisons": self.per_op,
            "exhaustive": self.exhaustive, "notes": self.notes,
            "known_finding_hits": self.known_hits,
        }
        if rule:
            cov["rule"] = rule
        cov.update(self.extra)
        ev = {"property_id": self.pid, "tier": self.tier, "seed": self.seed, "level": level,
              "coverage": cov, "assumptions": self.assumptions, "wall_s": wall,
              "violations": len(self.violations)}
        if not self.quiet:
            evdir = os.path.join(VERIF, "evidence") if REPO == "/repo" else os.path.join(WORK, "evidence")
            os.makedirs(evdir, exist_ok=True)
            with open(os.path.join(evdir, self.pid + ".json"), "w") as f:
                json.dump(ev, f, indent=1)
        for p in vio_paths:
            log("VIOLATION property=%s replay=%s" % (self.pid, p))
        if self.violations:
            d = (self.violations[0].get("detail") or {})
            log("  first violation: %s" % json.dumps({k: d.get(k) for k in ("variant", "got", "exp", "monitor", "rec")})[:900])
            log("%s: %d violation(s) in %d group(s); %.1fs" % (self.pid, len(self.violations), len(groups), wall))
            return 1
        log("%s: held on everything explored (%d states, %d behaviours replayed / %d comparisons, %d trace events, "
            "%d programs); %.1fs" % (self.pid, self.states, self.replayed_lines, self.replay_checks,
                                     self.trace_events, self.programs, wall))
        return 0


def known_matches(k, v):
    """A known-finding entry matches a violation record when every condition of its `match` holds."""
    m = k.get("match", {})
    d = v.get("detail") or {}
    rec = d.get("rec") or {}
    if "variant_regex" in m and not re.search(m["variant_regex"], d.get("variant", "")):
        return False
    if "module" in m and rec.get("m") != m["module"]:
        return False
    if "rec_flag" in m and not rec.get(m["rec_flag"]):
        return False
    if m.get("observed_equals_model") and d.get("got") != rec.get("model"):
        return False
    if "rec_equals" in m:
        for kk, vv in m["rec_equals"].items():
            if rec.get(kk) != vv:
                return False
    if m.get("got_equals_rec_model"):
        # the defective behaviour must be exactly the one recorded: konst's value = the hoisted-rev model's value
        g = d.get("got") or ""
        if not g.startswith("K:") or g.split(";S:")[0] != rec.get("model"):
            return False
    return bool(m)


# ----------------------------------------------------------------------------- Miri
def miri_replay(files, shards=14, timeout=3000):
    """Replay vector / behaviour files under Miri (cargo +nightly miri run): any undefined behaviour in the code
    under test aborts the interpreter.  Returns (summaries, failures[(shard file, tail of output)])."""
    tdir = os.path.join(WORK, "target-miri")
    e = dict(os.environ)
    e["MIRIFLAGS"] = "-Zmiri-disable-isolation"
    e["CARGO_TARGET_DIR"] = tdir
    e["CARGO_NET_OFFLINE"] = "true"
    e.pop("RUSTFLAGS", None)
    # build once
    p = subprocess.run(["timeout", "1500", "cargo", "+nightly", "miri", "run", "--offline", "--", "replay"], cwd=HARNESS, env=e,
                       stdout=subprocess.PIPE, stderr=subprocess.STDOUT, text=True)
    if p.returncode != 0 or '"lines":0' not in p.stdout.replace(" ", ""):
        raise ToolError("the harness does not build/run under Miri:\n" + tail(p.stdout, 40))

    def one(f):
        q = subprocess.run(["timeout", str(timeout), "cargo", "+nightly", "miri", "run", "--offline", "--", "replay", f],
                           cwd=HARNESS, env=e, stdout=subprocess.PIPE, stderr=subprocess.STDOUT, text=True, errors="replace")
        return f, q.returncode, q.stdout
    sums, fails = [], []
    with ThreadPoolExecutor(shards) as ex:
        for f, rc, out in ex.map(one, files):
            last = [l for l in out.splitlines() if l.startswith("{") and '"lines"' in l]
            if rc == 0 and last:
                sums.append(json.loads(last[-1]))
            else:
                fails.append((f, rc, tail(out, 40)))
    return sums, fails
