"""Per-property pipelines (DESIGN §5).  Each function drives: TLC model check (+ emission of the
explored behaviours), replay into the real code, recording of real executions and their validation
against the trace specification."""
import json
import os

import core
from core import WORK

CHECKS = {}
FINISH = {}


def check(pid, **finish):
    def deco(f):
        CHECKS[pid] = f
        FINISH[pid] = finish
        return f
    return deco


def vec(name):
    return os.path.join(WORK, "vec", name)


W8 = ("usize is modelled as an 8-bit word in the TLC configurations; real indices are obtained by the "
      "order- and sign-bit-preserving projection of DESIGN §3-2")
BOUNDED = "inputs outside the enumerated bounds are reached only by the seeded random traces"
STD_GUARD = "reference operators are cross-checked against real std on every replayed vector (mismatch = tool error)"


# ------------------------------------------------------------------------------------------- C04
@check("C04", rule="one case = (operation, haystack, needle); non-trivial = needle non-empty and no longer than "
                    "the haystack; every case is replayed through every pattern kind that can express the needle")
def c04(run):
    q = run.tier == "quick"
    import glob
    out = vec("C04-Matcher")
    for f in glob.glob(out + "-*.ndjson"):
        os.remove(f)
    run.mc("MC_Matcher", "Matcher.quick.cfg" if q else "Matcher.thorough.cfg", env={"OUT": out},
           need_actions=("Start", "Cmp", "Advance", "Finish"), heap="12g", timeout=5000)
    outs = sorted(glob.glob(out + "-*.ndjson"))
    if len(outs) != 10:
        raise core.ToolError("Matcher emission incomplete: %s" % outs)
    run.sample_file(outs[0])
    run.replay(outs, "Matcher vectors")
    _consteval_sample(run, "C04-consteval", outs, "Matcher", 600 if run.tier == "quick" else 4000)
    run.record_and_validate("Matcher", "Trace_Matcher", "Trace_Matcher.cfg",
                            n_files=4 if q else 16, n_events=5000 if q else 20000)
    run.assumptions += [BOUNDED, STD_GUARD,
                        "rfind with an empty pattern is outside the property (std: len, konst's tests pin len-1)"]


# ------------------------------------------------------------------------------------------- replay
def replay_file(pid, path, seed):
    with open(path) as f:
        doc = json.load(f)
    core.build_harness()
    run = core.Run(pid, "quick", doc.get("seed", seed), replay_only=True)
    if doc["kind"] == "vector":
        tmp = os.path.join(WORK, "replay", "_replay_%s.ndjson" % pid)
        with open(tmp, "w") as f:
            for r in doc["records"]:
                f.write(json.dumps(r) + "\n")
        run.replay([tmp], "replay file")
        if str(doc.get("variant", "")).startswith("miri:"):
            # the violation was observed by the interpreter (debug build, UB checks): replay there too
            sums, fails = core.miri_replay([tmp], shards=1)
            for s in sums:
                for mm in s["mismatches"]:
                    run.add_violation({"kind": "vector", "detail": dict(mm, variant="miri:" + str(mm.get("variant"))), "records": [mm.get("rec")]})
            for f, rc, out in fails:
                run.add_violation({"kind": "vector", "records": doc["records"][:1],
                                   "detail": {"variant": "miri:undefined-behaviour", "monitor": core.tail(out, 12)}})
    elif doc["kind"] == "trace":
        first = doc["first"]
        run.seed = 0
        out = os.path.join(WORK, "trace", "_replay_%s.ndjson" % pid)
        died = core.kh_record(first["module"], first["seed"], first["n_events"], out)
        if died:
            run.add_violation({"kind": "trace", "detail": {"variant": doc.get("variant"), "monitor": died}, "records": doc["records"]})
            core.log("VIOLATION property=%s replay=%s" % (pid, path))
            core.log("  reproduced: %s" % died)
            return 1
        r = core.run_tlc(os.path.join(core.SPEC, "trace"), first["trace_module"], first["cfg"],
                         env={"TRACE": out}, workers=1, trace_mode=True, heap="2g", coverage=False)
        if not r["ok"]:
            run.add_violation({"kind": "trace", "detail": {"variant": doc.get("variant")}, "records": doc["records"]})
    elif doc["kind"] == "program":
        import progs
        progs.replay_program(run, doc)
    else:
        raise core.ToolError("unknown replay kind " + str(doc.get("kind")))
    if run.violations:
        core.log("VIOLATION property=%s replay=%s" % (pid, path))
        core.log("  reproduced: %s" % json.dumps(run.violations[0].get("detail"))[:800])
        return 1
    core.log("%s: replay file %s does not reproduce a violation on the current tree" % (pid, path))
    return 0


def _p8(v):
    v = int(v)
    if v <= 60:
        return v
    if v <= 127:
        return (2**63 - 1) - (127 - v)
    if v <= 190:
        return 2**63 + (v - 128)
    return (2**64 - 1) - (255 - v)


def _consteval_sample(run, label, paths, kind, cap):
    """A seeded sample of emitted vectors re-expressed as const items: rustc's const evaluator executes the real
    const fn (it rejects out-of-bounds pointer arithmetic, reads of uninitialised memory and invalid values even when
    the result is unused, and some slips only show in const context)."""
    import progs
    import random
    import gen_consteval as gc
    lines = []
    for pth in paths:
        lines += open(pth).readlines()
    random.Random(run.seed).shuffle(lines)
    # long inputs (offsets / lengths / repetition counts beyond 64, 128, 256) first, up to a third of the budget
    long_ones = [l for l in lines if len(l) > 700][:max(1, cap // 3)]
    chosen = set(map(id, long_ones))
    lines = long_ones + [l for l in lines if id(l) not in chosen]
    ps = progs.ProgSet(run, label)
    n = 0
    for l in lines:
        r = json.loads(l)
        if kind == "Matcher":
            c = gc.matcher(r)
        elif kind == "StripTrim":
            c = gc.striptrim(r)
        elif kind == "StrIndex":
            c = gc.strindex(r, _p8)
        elif kind == "ParseInt":
            c = gc.parseint(r)
        elif kind == "CStr":
            c = gc.cstr(r) if r.get("m") == "CStr" else None
        elif kind == "Split":
            c = gc.split_const(r)
        elif kind == "Chars":
            c = gc.chars_const(r)
        else:
            c = None
        for cc in (c if isinstance(c, list) else [c]):
            if cc is not None:
                ps.add(cc[0], cc[1], dict(r, mac="const-eval:" + kind))
                n += 1
        if n >= cap:
            break
    ps.execute()


# ------------------------------------------------------------------------------------------- C05
@check("C05", rule="one case = (operation, input, pattern); non-trivial = pattern non-empty or whitespace op; "
                    "every case is replayed through every pattern kind of the string:: and slice::bytes_* twins")
def c05(run):
    q = run.tier == "quick"
    out = vec("C05-StripTrim.ndjson")
    run.mc("MC_StripTrim", "StripTrim.quick.cfg" if q else "StripTrim.thorough.cfg", env={"OUT": out},
           need_actions=("Start", "StripCheck", "StripStep", "TrimOuter", "TrimInner", "SpaceStep"),
           heap="8g", timeout=3000)
    run.sample_file(out)
    run.replay([out], "StripTrim vectors")
    _consteval_sample(run, "C05-consteval", [out], "StripTrim", 600 if q else 4000)
    run.record_and_validate("StripTrim", "Trace_StripTrim", "Trace_StripTrim.cfg",
                            n_files=4 if q else 16, n_events=5000 if q else 20000)
    run.assumptions += [BOUNDED, STD_GUARD,
                        "trim_matches (both ends) is compared only where trimming start-then-end and end-then-start "
                        "agree (std offers it only for such patterns)"]


# ------------------------------------------------------------------------------------------- C02
@check("C02", rule="one case = (operation, element kind, slice length, index or index pair); non-trivial = at least "
                    "one index within len+2 of the length or at an isize/usize boundary; every case runs on the "
                    "shared and the _mut variant and on element types u8, u16, [u64;3], String and ()")
def c02(run):
    q = run.tier == "quick"
    out = vec("C02-SliceIndex.ndjson")
    run.mc("MC_SliceIndex", "SliceIndex.quick.cfg" if q else "SliceIndex.thorough.cfg", env={"OUT": out},
           need_actions=("Guard", "AfterUnsafe", "Chain", "Direct"), heap="8g", timeout=3000)
    run.sample_file(out)
    run.replay([out], "SliceIndex vectors")
    run.record_and_validate("SliceIndex", "Trace_SliceIndex", "Trace_SliceIndex.cfg",
                            n_files=4 if q else 16, n_events=5000 if q else 20000)
    # the same vectors inside const items (a seeded sample): the const evaluator judges every pointer computation,
    # also those whose result is never used (e.g. an offset past the end formed before a clamp)
    import progs
    import random
    import gen_consteval as gc

    def p8(v):
        v = int(v)
        if v <= 60:
            return v
        if v <= 127:
            return (2**63 - 1) - (127 - v)
        if v <= 190:
            return 2**63 + (v - 128)
        return (2**64 - 1) - (255 - v)
    lines = open(out).readlines()
    random.Random(run.seed).shuffle(lines)
    ps = progs.ProgSet(run, "C02-consteval")
    n, cap = 0, (900 if q else 6000)
    for l in lines:
        r = json.loads(l)
        for cc in (gc.sliceindex(r, p8), gc.sliceindex_mut(r, p8, "u64"), gc.sliceindex_mut(r, p8, "u8")):
            if cc is not None:
                ps.add(cc[0], cc[1], dict(r, mac="const-eval:SliceIndex"))
                n += 1
        if n >= cap:
            break
    ps.execute()
    run.assumptions += [W8, BOUNDED, STD_GUARD,
                        "zero-sized elements: only the length of a result is observable, offsets are not compared"]


# ------------------------------------------------------------------------------------------- C03
@check("C03", rule="one case = (operation, string, index or index pair incl. start>end and indices at the "
                    "isize/usize boundaries); non-trivial = the string contains a multi-byte character")
def c03(run):
    q = run.tier == "quick"
    out = vec("C03-StrIndex.ndjson")
    run.mc("MC_StrIndex", "StrIndex.quick.cfg" if q else "StrIndex.thorough.cfg", env={"OUT": out},
           need_actions=("Check", "Unsafe"), heap="8g", timeout=3000)
    run.sample_file(out)
    run.replay([out], "StrIndex vectors")
    _consteval_sample(run, "C03-consteval", [out], "StrIndex", 600 if q else 4000)
    run.record_and_validate("StrIndex", "Trace_StrIndex", "Trace_StrIndex.cfg",
                            n_files=4 if q else 16, n_events=5000 if q else 20000)
    run.assumptions += [W8, BOUNDED, STD_GUARD]


# ------------------------------------------------------------------------------------------- C13 / C14
def _parser(run, emit_cfg, mc_cfgs, label):
    q = run.tier == "quick"
    out = vec("%s-Parser.ndjson" % run.pid)
    wide = vec("%s-ParserWide.ndjson" % run.pid)
    for f in (out, wide):
        if os.path.exists(f):
            os.remove(f)
    # the emitting runs: one JSON line per distinct state (witness path + outcome of every operation)
    run.mc("MC_Parser", emit_cfg, env={"OUT": out}, heap="8g", timeout=6000)
    # second alphabet family: byte-sharing 3-byte characters and characters at the ends of an encoded width
    run.mc("MC_Parser", "Parser.wide.cfg", env={"OUT": wide}, heap="8g", timeout=6000)
    run.sample_file(out, k=1)
    run.samples = [{"s": x.get("s"), "base": x.get("base"), "path": x.get("path"), "st": x.get("st"),
                    "outs(first 3)": x.get("outs", [])[:3]} for x in run.samples]
    # deeper model-checking-only runs (no emission)
    for c in mc_cfgs:
        run.mc("MC_Parser", c, env={"OUT": "/dev/null"}, heap="8g", timeout=6000)
    run.replay([out, wide], label)
    run.record_and_validate("Parser", "Trace_Parser", "Trace_Parser.cfg",
                            n_files=6 if q else 16, n_events=2500 if q else 10000, timeout=3000)
    run.assumptions += [BOUNDED, "the string functions used by the Parser model are the reference operators that "
                        "C04/C05/C12 bind to the code", "start offsets stay below u32::MAX (the struct stores a u32)"]


@check("C13", rule="one behaviour = a distinct parser state (original, base, remainder window, start_offset, "
                    "direction, split flag) with its witness operation path; all 45 operations-with-arguments are "
                    "applied to it and compared on (remainder position, start/end offset, direction | error offset, "
                    "direction); non-trivial = path of length >= 1")
def c13(run):
    q = run.tier == "quick"
    os.environ["KH_BIG_BASE"] = "1"        # C13 also probes a base that does not fit u32 (known finding F11)
    try:
        _c13(run, q)
    finally:
        os.environ.pop("KH_BIG_BASE", None)


def _c13(run, q):
    _parser(run, "Parser.quick.cfg" if q else "Parser.thorough.cfg",
            ["Parser.mc4.cfg"] if q else ["Parser.mc4minus.cfg"], "Parser state graph")


@check("C14", rule="one behaviour = a distinct parser state with its witness path; every operation's returned "
                    "value, new remainder and Ok/Err outcome are compared with the string function applied to the "
                    "old remainder; split protocols are invariants of the model (SplitProtocol)")
def c14(run):
    q = run.tier == "quick"
    _parser(run, "Parser.minus.cfg" if q else "Parser.thorough.cfg",
            [] if q else ["Parser.mc4minus.cfg"], "Parser state graph (alphabet with '-')")
    # the integer / bool prefix parse of every type (the Parser graph above only carries parse_u8 / parse_i8 /
    # parse_bool): the ParseInt vectors through Parser::parse_* and parse_with! only, and recorded long inputs
    src, only = vec("C14-ParseInt.ndjson"), vec("C14-ParseInt-parser.ndjson")
    run.mc("MC_ParseInt", "ParseInt.quick.cfg", env={"OUT": src}, heap="8g", timeout=3000)
    with open(only, "w") as f:
        for l in open(src):
            r = json.loads(l)
            r["only_parser"] = 1
            f.write(json.dumps(r) + "\n")
    run.replay([only], "ParseInt vectors through the Parser")
    run.record_and_validate("ParseInt", "Trace_ParseInt", "Trace_ParseInt.cfg", n_files=2 if q else 8, n_events=4000)


# ------------------------------------------------------------------------------------------- C16
@check("C16", rule="one case = an ordered pair of abstract values (flat / nested sequences over ordered digits, "
                    "scalar anchor positions MIN..MAX, Option of these, range pairs); each case runs through every "
                    "eq_*/cmp_* instantiation and macro form that accepts it (~70 variants per flat pair); "
                    "non-trivial = the two values differ in length or content")
def c16(run):
    q = run.tier == "quick"
    out = vec("C16-Cmp.ndjson")
    run.mc("MC_Cmp", "Cmp.quick.cfg" if q else "Cmp.thorough.cfg", env={"OUT": out},
           need_actions=("Start", "Step"), heap="8g", timeout=3000)
    run.sample_file(out)
    run.replay([out], "Cmp vectors")
    run.record_and_validate("Cmp", "Trace_Cmp", "Trace_Cmp.cfg", n_files=4 if q else 16, n_events=5000 if q else 20000)
    run.assumptions += [BOUNDED, STD_GUARD,
                        "values of each type are obtained from abstract digits / anchor positions by a strictly "
                        "increasing map (the comparison code can only observe the order)",
                        "transitivity / totality are TLC ASSUMEs on the reference order; the real results are checked "
                        "for agreement with it on all pairs, for antisymmetry and for Equal <=> eq"]


# ------------------------------------------------------------------------------------------- C08
@check("C08", rule="one behaviour = a distinct iterator state (kind, slice length, size, remaining window, Option "
                    "flag, forward/Rev) with its witness path of next/next_back/rev steps; at each state next, "
                    "next_back and as_slice/remainder are compared; non-trivial = length >= 1")
def c08(run):
    q = run.tier == "quick"
    out = vec("C08-SliceIter.ndjson")
    if os.path.exists(out):
        os.remove(out)
    run.mc("MC_SliceIter", "SliceIter.quick.cfg" if q else "SliceIter.thorough.cfg", env={"OUT": out},
           heap="8g", timeout=3000)
    run.sample_file(out)
    run.replay([out], "SliceIter state graph")
    run.record_and_validate("SliceIter", "Trace_SliceIter", "Trace_SliceIter.cfg",
                            n_files=4 if q else 16, n_events=5000 if q else 20000)
    run.exhaustive = False
    run.assumptions += [BOUNDED, STD_GUARD, "array_chunks is instantiated for N = 1..5 only",
                        "elements are u16 with distinct values; a yielded item is identified by its address window"]


# ------------------------------------------------------------------------------------------- C07
@check("C07", rule="behaviours = distinct (string, remaining window, forward/Rev) states of chars / char_indices "
                    "with witness paths; plus one case per u32 value for the conversions (complete sweep of "
                    "0..0x120000 in 256-value blocks); non-trivial = multi-byte character or scalar boundary")
def c07(run):
    q = run.tier == "quick"
    out = vec("C07-Chars.ndjson")
    if os.path.exists(out):
        os.remove(out)
    run.mc("MC_Chars", "Chars.quick.cfg" if q else "Chars.thorough.cfg", env={"OUT": out}, heap="8g", timeout=3000)
    out2 = vec("C07-Chars-wide.ndjson")
    if os.path.exists(out2):
        os.remove(out2)
    run.mc("MC_Chars", "Chars.wide.cfg", env={"OUT": out2}, heap="8g", timeout=3000)
    out3 = vec("C07-Chars-long.ndjson")
    if os.path.exists(out3):
        os.remove(out3)
    run.mc("MC_Chars", "Chars.long.cfg", env={"OUT": out3}, heap="8g", timeout=3000)
    run.sample_file(out)
    run.replay([out, out2, out3], "Chars state graphs")
    _consteval_sample(run, "C07-consteval", [out, out2, out3], "Chars", 500 if q else 3000)
    run.record_and_validate("Chars", "Trace_Chars", "Trace_Chars.cfg", n_files=4 if q else 16,
                            n_events=4000 if q else 15000)
    # complete sweep of from_u32 / encode_utf8 / decode over every u32 in 0..0x120000 (4608 blocks of 256)
    nblk = 288
    run.record_and_validate("CharSweep", "Trace_CharSweep", "Trace_CharSweep.cfg", n_files=16, n_events=nblk,
                            seed_list=[k * nblk for k in range(16)], heap="3g")
    run.extra["complete_sweep"] = "every u32 in 0..0x120000 (1 179 648 values) + 5 boundary values up to u32::MAX"
    run.exhaustive = True
    run.assumptions += [STD_GUARD, "exhaustive=true refers to the char<->UTF-8/u32 conversions (complete sweep); the "
                        "iterator state graphs are exhaustive within their string bounds only"]


# ------------------------------------------------------------------------------------------- C09
@check("C09", rule="one case = (type, range form, start, end): complete for u8 and i8 (all 65 536 pairs x {.., ..=} "
                    "+ start..), char pairs within 6 of 0 / 0xD7FF|0xE000 / 0x10FFFF; each case checks the front and "
                    "back item on the forward and Rev types, and for ranges of <= 12 values the complete forward, "
                    "backward, reversed, alternating and for_each! sequences; wider integer types run the cases "
                    "whose values project into their MIN/0/MAX neighbourhoods; non-trivial = non-empty range")
def c09(run):
    q = run.tier == "quick"
    outs = []
    for ty in ("u8", "i8", "char"):
        out = vec("C09-RangeIter-%s.ndjson" % ty)
        if os.path.exists(out):
            os.remove(out)
        run.mc("MC_RangeIter", "RangeIter.%s.cfg" % ty, env={"OUT": out}, heap="8g", timeout=3000)
        outs.append(out)
    run.sample_file(outs[2])
    run.replay(outs, "RangeIter all pairs")
    for ty in ("u16", "i16", "char"):
        run.record_and_validate("RangeIter-" + ty, "Trace_RangeIter", "Trace_RangeIter.%s.cfg" % ty,
                                n_files=2 if q else 6, n_events=4000 if q else 15000)
    run.exhaustive = True
    run.assumptions += [STD_GUARD, W8.replace("usize", "each wider integer type"),
                        "exhaustive=true refers to u8 and i8 (all bound pairs); start.. is compared on prefixes that "
                        "stay below T::MAX (stepping past it is a debug_assert in konst, profile-dependent in std)"]


# ------------------------------------------------------------------------------------------- C06
@check("C06", rule="one behaviour = a distinct iterator state (iterator kind, string, delimiter, remaining window, "
                    "State enum, forward/Rev) with its witness path; next, next_back (where defined) and remainder "
                    "are compared for &str and char delimiters; non-trivial = the string contains the delimiter")
def c06(run):
    q = run.tier == "quick"
    out = vec("C06-Split.ndjson")
    if os.path.exists(out):
        os.remove(out)
    run.mc("MC_Split", "Split.quick.cfg" if q else "Split.thorough.cfg", env={"OUT": out}, heap="8g", timeout=3000)
    run.sample_file(out)
    run.replay([out], "Split state graph")
    _consteval_sample(run, "C06-consteval", [out], "Split", 500 if q else 3000)
    run.record_and_validate("Split", "Trace_Split", "Trace_Split.cfg", n_files=4 if q else 16,
                            n_events=3000 if q else 12000)
    run.assumptions += [BOUNDED, STD_GUARD,
                        "front and back steps are mixed only for one-character delimiters (std is double-ended only "
                        "there); rsplit_terminator's mirrored rule is the specification's own reference"]


# ------------------------------------------------------------------------------------------- C12
@check("C12", rule="one case = (type, string); strings: all token strings up to a bound over {0,1,2,5,9,-,+,a,' ', "
                    "non-ASCII digit}, every value 0..300 (quick) in 7 textual forms, ~600 generated strings "
                    "around MAX / MAX_POS / |MIN| of every width; each case runs the prefix parser, the HasParser "
                    "dispatch with a base offset and the whole-string function; non-trivial = contains a digit")
def c12(run):
    q = run.tier == "quick"
    out = vec("C12-ParseInt.ndjson")
    run.mc("MC_ParseInt", "ParseInt.quick.cfg" if q else "ParseInt.thorough.cfg", env={"OUT": out},
           need_actions=("Sign", "FirstDigit", "DigitStep", "ApplySign"), heap="8g", timeout=3000)
    run.sample_file(out)
    run.replay([out], "ParseInt vectors")
    _consteval_sample(run, "C12-consteval", [out], "ParseInt", 500 if q else 3000)
    run.record_and_validate("ParseInt", "Trace_ParseInt", "Trace_ParseInt.cfg", n_files=4 if q else 16,
                            n_events=4000 if q else 15000)
    run.assumptions += [BOUNDED, STD_GUARD, "numbers are decimal digit sequences in the specification (exact for "
                        "128-bit types); usize/isize are taken as 64-bit"]


# caller-side names that a macro-defined helper item could capture (items and generic parameters are not hygienic)
HYGIENE_NAMES = ["CAP", "LEN", "N", "Ret", "T", "U", "Item", "ITEM", "Acc", "RET", "ARR", "ITER", "CMD", "Iter", "Out", "ARRAY", "LENGTH"]


# ------------------------------------------------------------------------------------------- C20
def _concat_cases(run, path, name):
    import progs
    ps = progs.ProgSet(run, name)
    k_hyg = 0
    for line in open(path):
        r = json.loads(line)
        pieces, sep, mac = r["pieces"], r["sep"], r["mac"]
        exp = str(list(r["exp"]))
        if mac == "str_concat":
            if r["ek"] == "str":
                body = 'const S: &str = konst::string::str_concat!(&[%s]); format!("{:?}", S.as_bytes())' % ", ".join(progs.rust_str(p) for p in pieces)
            else:
                body = 'const S: &str = konst::string::str_concat!(&[%s]); format!("{:?}", S.as_bytes())' % ", ".join(progs.rust_char(p) for p in pieces)
            if not pieces:
                body = 'const S: &str = konst::string::str_concat!(&[]); format!("{:?}", S.as_bytes())'
        elif mac == "from_iter":
            if r["ek"] == "str":
                lit = "&[%s]" % ", ".join(progs.rust_str(p) for p in pieces)
                body = 'const A: &[&str] = %s; const S: &str = konst::string::from_iter!(A, copied()); format!("{:?}", S.as_bytes())' % lit
            else:
                lit = "&[%s]" % ", ".join(progs.rust_char(p) for p in pieces)
                body = 'const A: &[char] = %s; const S: &str = konst::string::from_iter!(A, copied()); format!("{:?}", S.as_bytes())' % lit
        elif mac == "slice_concat":
            body = ('const S: &[&[u8]] = &[%s]; const A: [u8; konst::slice::slice_concat!(u8, S).len()] = konst::slice::slice_concat!(u8, S); '
                    'format!("{:?}", &A[..])' % ", ".join(progs.rust_bytes(p) for p in pieces))
        elif mac == "str_join":
            if r["sk"] == "char":
                try:
                    if len(bytes(sep).decode()) != 1:
                        continue
                except Exception:
                    continue
                sp = progs.rust_char(sep)
            else:
                sp = progs.rust_str(sep)
            body = 'const S: &str = konst::string::str_join!(%s, &[%s]); format!("{:?}", S.as_bytes())' % (sp, ", ".join(progs.rust_str(p) for p in pieces))
        else:
            continue
        ps.add(body, exp, r)
        if mac == "from_iter" and pieces:
            # hygiene: caller-side constants named like plausible macro internals inside the iterator tokens
            # (the macro defines helper items; their generic / const parameters must not capture these)
            nm = HYGIENE_NAMES[k_hyg % len(HYGIENE_NAMES)]
            k_hyg += 1
            hbody = body.replace("copied());", "copied(), skip(%s - %s), take(%s));" % (nm, nm, nm), 1)
            hbody = "const %s: usize = %d; %s" % (nm, len(pieces), hbody)
            ps.add(hbody, exp, dict(r, hygiene=nm))
    return ps


@check("C20", rule="one case = a constant argument list (0..3 pieces, quick; 0..4 thorough) over {\"\", a, two multi-byte "
                    "chars, crab} as str or char elements with str/char separators, expanded in a const item; plus one "
                    "case per byte string over {0,'a',0xFF,0xC3,0xB1} for the CStr functions; non-trivial = at least two "
                    "pieces or an interior nul")
def c20(run):
    q = run.tier == "quick"
    out1 = vec("C20-CStr.ndjson")
    run.mc("MC_CStr", "CStr.quick.cfg" if q else "CStr.thorough.cfg", env={"OUT": out1},
           need_actions=("Scan", "Decide", "Walk"), heap="6g", timeout=3000)
    out2 = vec("C20-Concat.ndjson")
    run.mc("MC_Concat", "Concat.quick.cfg" if q else "Concat.thorough.cfg", env={"OUT": out2},
           need_actions=("Sum", "Fill"), heap="6g", timeout=3000)
    run.sample_file(out1, k=2)
    run.sample_file(out2, k=2)
    run.replay([out1, out1 + ".utf8"], "CStr and from_utf8 vectors")
    _consteval_sample(run, "C20-consteval-cstr", [out1], "CStr", 300 if q else 2000)
    run.record_and_validate("CStr", "Trace_CStr", "Trace_CStr.cfg", n_files=2 if q else 8, n_events=3000 if q else 10000)
    _concat_cases(run, out2, "C20-concat").execute()
    run.exhaustive = False
    run.assumptions += [BOUNDED, STD_GUARD, "concatenation programs are generated from the TLC-emitted descriptors; the "
                        "macros are expanded inside const items, so rustc's const evaluator executes them",
                        "CStr error kinds are not compared (the property does not mention them)"]


# ------------------------------------------------------------------------------------------- C15
def _destructure_descs(run, tier):
    out = vec("%s-Destructure.ndjson" % run.pid)
    run.mc("MC_Destructure", "Destructure.quick.cfg", env={"OUT": out},
           need_actions=("FieldCheck", "TypeAssert", "DropAssert", "Reads"), heap="4g", timeout=2000)
    return out, [json.loads(l) for l in open(out)]


@check("C15", rule="behaviours = distinct states of one or two containers (ArrayConsumer / ArrayBuilder of a drop-ledger "
                    "element type, N = 0..3) reached by next / next_back / as_slice / clone / drop / assert_is_empty / "
                    "push / build, with the exact set of dropped values compared at every state; plus one program per "
                    "accepted destructure! descriptor (shape x arity x bind/_/rest patterns x flavour) run with ledger "
                    "fields; non-trivial = at least one element")
def c15(run):
    import progs
    import gen_destructure as gd
    q = run.tier == "quick"
    outs = []
    for cfg in (["Ownership.n0.cfg", "Ownership.n1.cfg", "Ownership.n2.cfg", "Ownership.n3.cfg"] if q else
                ["Ownership.n0.cfg", "Ownership.n1.cfg", "Ownership.n2.cfg", "Ownership.n3full.cfg"]):
        out = vec("C15-%s.ndjson" % cfg[:-4])
        if os.path.exists(out):
            os.remove(out)
        run.mc("MC_Ownership", cfg, env={"OUT": out}, heap="8g", timeout=3000)
        outs.append(out)
    run.sample_file(outs[2], k=2)
    run.replay(outs, "Ownership state graphs")
    for nn in (5, 8):
        run.record_and_validate("Ownership-%d" % nn, "Trace_Ownership", "Trace_Ownership.n%d.cfg" % nn,
                                n_files=2 if q else 8, n_events=4000 if q else 15000)
    path, descs = _destructure_descs(run, run.tier)
    for dbg in (True, False):        # second pass: caller and library built without debug assertions
        ps = progs.ProgSet(run, "C15-destructure" if dbg else "C15-destructure-release", prelude=progs.HOSTILE_PRELUDE + gd.LEDGER_PRELUDE, debug_assertions=dbg)
        for r in descs:
            if r["verdict"] != "Accepted":
                continue
            # (`mut` bindings: the array form only takes single-token patterns)
            flavors = ["plain", "typed"] + (["mutbind"] if "b" in r["pats"] and r["shape"] != "array" else [])
            if r["shape"] == "braced":
                flavors += ["packed"] + (["generic"] if r["n"] > 0 else [])
            if r["shape"] == "tuple_struct":
                flavors += ["packed"] + (["generic"] if r["n"] > 0 else [])
            for fl in flavors:
                body, exp = gd.runtime_case(r, fl)
                ps.add(body, exp, dict(r, flavor=fl, mac="destructure!"))
            body, exp = gd.const_case(r, "plain")
            ps.add(body, exp, dict(r, flavor="const", mac="destructure!(const fn)"))
            if r["shape"] in ("braced", "tuple_struct") and r["n"] > 0:
                # packed aggregates: the field reads must be unaligned reads (only the const evaluator / Miri can tell)
                body, exp = gd.const_case(r, "packed")
                ps.add(body, exp, dict(r, flavor="const-packed", mac="destructure!(const fn, packed)"))
        # the by-value array map / from_fn: per-element drop counts after every way the closure can leave (ArrayBuild.tla ledger)
        import gen_arraybuild as ga
        about = vec("C15-ArrayBuild.ndjson")
        if os.path.exists(about):
            os.remove(about)
        run.mc("MC_ArrayBuild", "ArrayBuild.cfg", env={"OUT": about}, heap="2g", timeout=600)
        seen = set()
        for l in open(about):
            r = json.loads(l)
            key = (r["form"], r["n"], r["exit"], r["pos"], r["pc"])
            if key in seen:
                continue
            seen.add(key)
            for body, exp, rec in ga.byval_ledger_cases(r):
                ps.add(body, exp, rec)
        ps.execute()
    run.samples.append({"descriptor": descs[len(descs) // 2]})
    run.assumptions += [BOUNDED, "the drop ledger lives in the harness' element type (per-id created/dropped counts, "
                        "12-byte payload derived from the id)", "panicking paths are not completed paths (no leak check)"]


# ------------------------------------------------------------------------------------------- C11
def _arraybuild_programs(run, descs, name, debug_assertions=True):
    import progs
    import gen_arraybuild as ga
    ps = progs.ProgSet(run, name, prelude=progs.HOSTILE_PRELUDE, debug_assertions=debug_assertions)
    for r in descs.values():
        if run.tier == "quick" and r["ending"] == "loop" and r["n"] > 3:
            continue        # non-terminating programs cost a timeout each (8 run at a time): quick keeps n <= 3
        for body, exp, rec, isolate, hostile in ga.cases(r):
            if hostile:
                # the property: never an array with an unwritten element; it loops, panics, leaves or does not compile
                ps.add(body, exp, rec, isolate=isolate,
                       accept=lambda g: g in ("PANIC", "TIMEOUT", "None", "COMPILE-ERROR"))
            else:
                ps.add(body, exp, rec)
    for body, exp, rec in ga.builder_cases():
        ps.add(body, exp, rec)
    for body, exp, rec in ga.stateful_closure_cases():
        ps.add(body, exp, rec)
    for body, exp, rec, may_reject in ga.param_pattern_cases():
        if may_reject:
            ps.add(body, exp, rec, accept=lambda g, exp=exp: g in (exp, "COMPILE-ERROR"))
        else:
            ps.add(body, exp, rec)
    return ps


@check("C11", rule="one program per (macro in map!/map_!/from_fn!/from_fn_!, length 0..3, Copy / non-Copy element, closure "
                    "exit in none/break/continue/return/panic, exit position), plus collect_const! and ArrayBuilder "
                    "under/over-filling programs; the observed ending (value / panic / left the function / does not "
                    "terminate / rejected by rustc) is compared with the model's; non-trivial = length >= 1")
def c11(run):
    import progs
    import gen_arraybuild as ga
    out = vec("C11-ArrayBuild.ndjson")
    if os.path.exists(out):
        os.remove(out)
    run.mc("MC_ArrayBuild", "ArrayBuild.cfg", env={"OUT": out}, heap="4g", timeout=2000)
    descs = {}
    for l in open(out):
        r = json.loads(l)
        descs[(r["form"], r["n"], r["exit"], r["pos"])] = r
    run.samples += list(descs.values())[:3]
    _arraybuild_programs(run, descs, "C11-arraybuild").execute()
    # the same programs with the caller's crate built without debug assertions (the guards must be real assertions)
    _arraybuild_programs(run, descs, "C11-arraybuild-release", debug_assertions=False).execute()
    # collect_const!: "an array whose length and contents equal collecting the same iterator" for every adapter chain
    # of the iterator-DSL grammar up to depth 2 (the descriptors of IterDsl.tla with the consumer `collect`)
    dsl, coll = vec("C11-IterDsl-d2.ndjson"), vec("C11-IterDsl-collect.ndjson")
    if os.path.exists(dsl):
        os.remove(dsl)
    run.mc("MC_IterDsl", "IterDsl.d2.cfg", env={"OUT": dsl}, heap="8g", timeout=3000)
    with open(coll, "w") as f:
        for l in open(dsl):
            if json.loads(l)["cons"] == "collect":
                f.write(l)
    _iterdsl_programs(run, coll, "C11-collect").execute()
    _iterdsl_programs(run, coll, "C11-collect-release", debug_assertions=False).execute()
    # ... and every depth-3 chain (two nested flat_map/flatten followed by an adapter that ends the iteration, a rev
    # before two direction-dependent adapters, ...) with the consumer `collect`
    dsl3, coll3 = vec("C11-IterDsl-d3.ndjson"), vec("C11-IterDsl-collect3.ndjson")
    if os.path.exists(dsl3):
        os.remove(dsl3)
    run.mc("MC_IterDsl", "IterDsl.d3.cfg", env={"OUT": dsl3}, heap="8g", timeout=3000)
    with open(coll3, "w") as f:
        for l in open(dsl3):
            if json.loads(l)["cons"] == "collect":
                f.write(l)
    _iterdsl_programs(run, coll3, "C11-collect-d3").execute()
    # a source of 260 items
    dsll, colll = vec("C11-IterDsl-long.ndjson"), vec("C11-IterDsl-collect-long.ndjson")
    if os.path.exists(dsll):
        os.remove(dsll)
    run.mc("MC_IterDsl", "IterDsl.long1.cfg", env={"OUT": dsll}, heap="8g", timeout=3000)
    with open(colll, "w") as f:
        for l in open(dsll):
            if json.loads(l)["cons"] == "collect":
                f.write(l)
    _iterdsl_programs(run, colll, "C11-collect-long").execute()
    run.assumptions += [BOUNDED, "closure exits are generated from a fixed template (exit statement at a chosen "
                        "element); a 3 s timeout stands for non-termination"]


# ------------------------------------------------------------------------------------------- C10
def _iterdsl_programs(run, path, name, limit=None, seed=1, alt_sources=False, debug_assertions=True):
    import progs
    import random
    import gen_iterdsl as gi
    lines = [json.loads(l) for l in open(path)]
    if limit and len(lines) > limit:
        # quick tier: all chains where adapters interact (a direction-dependent adapter after a rev, or a
        # continue/break adapter inside a flat_map) with the order-revealing consumers, plus a seeded sample of the rest
        def interacting(r):
            ks = [a["k"] for a in r["chain"]]
            if r["cons"] not in ("for_each", "fold"):
                return False
            for i, k in enumerate(ks):
                if k == "rev" and any(x in ("zip", "flat_map", "flatten") for x in ks[i + 1:]):
                    return True
                if k in ("flat_map", "flatten") and any(x in ("filter", "filter_map", "skip", "skip_while", "take", "take_while") for x in ks[i + 1:]):
                    return True
            return False
        pri = [r for r in lines if interacting(r)]
        rest = [r for r in lines if not interacting(r)]
        random.Random(seed).shuffle(rest)
        lines = pri + rest[:max(0, limit - len(pri))]
    ps = progs.ProgSet(run, name, prelude=progs.HOSTILE_PRELUDE + (gi.USER_PRELUDE if alt_sources else ""), debug_assertions=debug_assertions)
    for k_line, r in enumerate(lines):
        cs = gi.case(r)
        if cs is None:
            continue
        body, exp, model = cs
        guard = gi.std_guard_applies(r)
        rec = {"m": "IterDsl", "mac": "iter-dsl", "chain": [a["k"] + ("(%d)" % a["n"] if a["k"] in ("map", "skip", "take") else "") for a in r["chain"]],
               "cons": r["cons"], "known": r["known"], "model": "K:" + model, "expected": exp}

        def accept(g, exp=exp, model=model, guard=guard, rec=rec):
            if not g.startswith("K:") or ";S:" not in g:
                return False
            kk, ss = g[2:].split(";S:", 1)
            if guard and ss != exp:
                raise core.ToolError("SPEC-REFERENCE-MISMATCH: Std(chain) of the specification differs from real std for %s: "
                                     "spec=%s std=%s" % (json.dumps(rec)[:300], exp, ss))
            rec["got_konst"] = kk
            return kk == exp
        ps.add(body, "K:" + exp, rec, accept=accept)
        # hygiene: take / skip arguments written with a caller-side constant named like a plausible macro internal
        if alt_sources and any(a["k"] in ("take", "skip") for a in r["chain"]) and k_line % 3 == 0 and not gi.has_state(r):
            nm = HYGIENE_NAMES[(k_line // 3) % len(HYGIENE_NAMES)]
            hbody, hexp, hmodel = gi.case(r, hyg=nm)
            hrec = dict(rec, hygiene=nm)

            def haccept(g, exp=hexp, hrec=hrec):
                if not g.startswith("K:") or ";S:" not in g:
                    return False
                hrec["got_konst"] = g[2:].split(";S:", 1)[0]
                return hrec["got_konst"] == exp
            ps.add(hbody, "K:" + hexp, hrec, accept=haccept)
        # other spellings of the adapter closures (typed parameter / return type / function path), rotated over the chains
        if alt_sources and k_line % 2 == 1 and (r["cons"] in ("all", "any", "position", "rposition", "find", "rfind", "find_map", "fold", "rfold")
                                                or any(a["k"] in ("filter", "map", "filter_map", "flat_map", "skip_while", "take_while") for a in r["chain"])):
            mode = 1 + (k_line // 2) % 3
            sc = gi.case(r, spell=mode)
            if sc is not None and sc[0] != body:
                sbody, sexp, smodel = sc
                srec = dict(rec, spelling=["", "typed parameter", "return type", "function path"][mode])

                def saccept(g, exp=sexp, srec=srec):
                    if not g.startswith("K:") or ";S:" not in g:
                        return False
                    srec["got_konst"] = g[2:].split(";S:", 1)[0]
                    return srec["got_konst"] == exp
                ps.add(sbody, "K:" + sexp, srec, accept=saccept)
        # the same chain from the other source kinds (Sources of IterDsl.tla): chains of depth <= 1, every fifth deeper one
        if alt_sources and "srcs" in r and (len(r["chain"]) <= 1 or (k_line % 8 == 0 and len(r["chain"]) == 2)):
            for kind in ("slice_ref", "array", "array_ref_ref", "iter_copied", "range", "range_incl", "chars", "repeat_take", "user_into", "user_iter"):
                alt = gi.alt_source_case(r, kind)
                if alt is None:
                    continue
                abody, aexp, amodel = alt
                arec = dict(rec, source=kind, model="K:" + amodel, expected=aexp)

                def aaccept(g, aexp=aexp, arec=arec):
                    if not g.startswith("K:"):
                        return False
                    arec["got_konst"] = g[2:]
                    return g[2:] == aexp
                ps.add(abody, "K:" + aexp, arec, accept=aaccept)
    return ps


@check("C10", rule="one program per (adapter chain, consumer) that std's trait bounds and konst both accept, over an "
                    "11-adapter x 14-consumer grammar (complete to depth 2 in quick, + a seeded sample of depth 3; complete "
                    "depth 3 in thorough), each evaluated on five inputs through the konst macro and the identical std "
                    "chain; non-trivial = chain of depth >= 1")
def c10(run):
    q = run.tier == "quick"
    out2 = vec("C10-IterDsl-d2.ndjson")
    out3 = vec("C10-IterDsl-d3.ndjson")
    for o in (out2, out3):
        if os.path.exists(o):
            os.remove(o)
    run.mc("MC_IterDsl", "IterDsl.d2.cfg", env={"OUT": out2}, heap="8g", timeout=3000)
    run.mc("MC_IterDsl", "IterDsl.d3.cfg", env={"OUT": out3}, heap="8g", timeout=3000)
    run.sample_file(out2, k=2)
    _iterdsl_programs(run, out2, "C10-d2", alt_sources=True).execute()
    d3 = _iterdsl_programs(run, out3, "C10-d3", limit=1200 if q else None, seed=run.seed)
    d3.execute()
    # one source of 260 items (positions and counts beyond 255): every chain of depth <= 1 (thorough: <= 2)
    outl = vec("C10-IterDsl-long.ndjson")
    if os.path.exists(outl):
        os.remove(outl)
    run.mc("MC_IterDsl", "IterDsl.long1.cfg" if q else "IterDsl.long2.cfg", env={"OUT": outl}, heap="8g", timeout=3000)
    _iterdsl_programs(run, outl, "C10-long").execute()
    run.assumptions += [BOUNDED, STD_GUARD + " (skipped on the two documented exceptions and on the known shape)",
                        "closures come from a fixed pure library acting on an injective scalarisation of the item",
                        "how often upstream closures run is not compared (the property speaks of produced values)"]


# ------------------------------------------------------------------------------------------- C19
@check("C19", rule="one program per (macro, variant, payload, argument form closure/function path) for the option:: and "
                    "result:: macros (value and whether the fallback ran, std method as guard), per rebind pattern "
                    "(arity 1..5 quick / 1..6 thorough, each position place / let / typed let / _) for try_rebind! and "
                    "rebind_if_ok!, per key pair for min!/max!/_by/_by_key, plus try_! / try_opt!; non-trivial = payload "
                    "reaches the closure or arity >= 2")
def c19(run):
    import progs
    import gen_optres as go
    q = run.tier == "quick"
    out = vec("C19-OptRes.ndjson")
    run.mc("MC_OptRes", "OptRes.quick.cfg" if q else "OptRes.thorough.cfg", env={"OUT": out},
           need_actions=("ExpandOpt", "ExpandRes"), heap="4g", timeout=2000)
    run.sample_file(out)
    ps = progs.ProgSet(run, "C19-optres", prelude=progs.HOSTILE_PRELUDE + go.PRELUDE)
    for l in open(out):
        for body, exp, rec in go.cases(json.loads(l)):
            ps.add(body, exp, rec)
    for body, exp, rec in go.side_effect_cases():
        ps.add(body, exp, rec)
    for body, exp, rec in go.try_cases() + go.drop_cases():
        ps.add(body, exp, rec)
    ps.execute()
    run.assumptions += ["closures / function paths come from a fixed library; the std method is evaluated next to every "
                        "macro call and must agree with the specification (assert inside the program)"]


# ------------------------------------------------------------------------------------------- C18
@check("C18", rule="one program per (macro form, alternative list): 6 forms x 20 lists built from 22 literal tokens (every "
                    "escape kind, \\\\u{..} with `_`, line continuations followed by space/tab/newline/NBSP/form feed, raw "
                    "strings with 0-2 hashes, concat!, empty literal), each run on every input string of <= 2 (thorough 3) "
                    "characters over a 12-character alphabet; branch taken and remainder offsets are compared; non-trivial "
                    "= the input contains an alternative")
def c18(run):
    import progs
    import gen_parsermethod as gp
    q = run.tier == "quick"
    gp.write_tla(os.path.join(core.SPEC, "ParserMethodLits.tla"))
    out, hdr = vec("C18-ParserMethod.ndjson"), vec("C18-ParserMethod-hdr.ndjson")
    for o in (out, hdr):
        if os.path.exists(o):
            os.remove(o)
    run.mc("MC_ParserMethod", "ParserMethod.quick.cfg" if q else "ParserMethod.thorough.cfg",
           env={"OUT": out, "HDR": hdr}, heap="8g", timeout=3000, workers=16)
    h = json.loads(open(hdr).readline())
    inputs, lits = h["inputs"], h["lits"]
    ps = progs.ProgSet(run, "C18-parsermethod", prelude=progs.HOSTILE_PRELUDE)
    for l in open(out):
        r = json.loads(l)
        altset = gp.ALTSETS[r["k"] - 1]
        body, used = gp.rust_case(r["form"], altset, inputs)
        gexp = "".join("%s=%s;" % (x, str(list(lits[x]))) for x in used)
        rexp = "".join("%d,%d,%d;" % (e[0], e[1], e[2]) for e in r["exp"])
        rec = {"m": "ParserMethod", "mac": "parser_method!(%s)" % r["form"], "alts": altset, "n_inputs": len(inputs)}

        def accept(g, gexp=gexp, rexp=rexp, rec=rec, inputs=inputs):
            if not g.startswith("G:") or "|R:" not in g:
                return False
            gg, rr = g[2:].split("|R:", 1)
            if gg != gexp:
                raise core.ToolError("SPEC-REFERENCE-MISMATCH: the specification's literal decoder disagrees with rustc: "
                                     "spec %s rustc %s" % (gexp, gg))
            if rr != rexp:
                a, b = rr.split(";"), rexp.split(";")
                for i in range(min(len(a), len(b))):
                    if a[i] != b[i]:
                        rec["first_diff"] = {"input": inputs[i], "got(branch,start,end)": a[i], "exp": b[i]}
                        break
            return rr == rexp
        ps.add(body, "G:%s|R:%s" % (gexp, rexp[:60] + "..."), rec, accept=accept)
    run.samples.append({"form": "strip_prefix", "alts": gp.ALTSETS[3], "literal tokens": [gp.LIT[x][2] for b in gp.ALTSETS[3] for x in b]})
    ps.execute()
    # the macro forms as Parser actions (Parser.tla): applied to every parser state of a small graph - in particular
    # states last advanced from the end - and compared on remainder, offsets *and direction* with the chain of method
    # calls the form stands for.  Only the pm_* operations are compared here (the others belong to C13 / C14).
    pout, pm = vec("C18-Parser.ndjson"), vec("C18-Parser-pm.ndjson")
    if os.path.exists(pout):
        os.remove(pout)
    run.mc("MC_Parser", "Parser.c01.cfg" if q else "Parser.quick.cfg", env={"OUT": pout}, heap="8g", timeout=3000)
    with open(pm, "w") as f:
        for l in open(pout):
            r = json.loads(l)
            r["outs"] = [o for o in r["outs"] if o["o"]["op"].startswith("pm_")]
            r["only_pm"] = 1
            f.write(json.dumps(r) + "\n")
    run.replay([pm], "parser_method! forms on every parser state")
    run.assumptions += ["rustc's own decoding of every literal token is observed in the same program (const L: &str = <token>) "
                        "and must equal the specification's decoder (else tool error)",
                        "alternative lists and input alphabet are fixed tables (lib/gen_parsermethod.py, generated into "
                        "spec/ParserMethodLits.tla)"]


# ------------------------------------------------------------------------------------------- C17
_DSL_TXT = {"copied": "copied()", "flatten": "flatten()", "enumerate": "enumerate()", "map": "map(|x| x)", "rev": "rev()", "skip": "skip(1)",
            "take": "take(2)", "filter": "filter(|_| true)", "filter_map": "filter_map(|x| Some(x))",
            "take_while": "take_while(|_| true)", "skip_while": "skip_while(|_| false)", "zip": "zip(&[1u8, 2, 3])",
            "flat_map": "flat_map(|_| &[7u32, 8])",
            "count": "count()", "next": "next()", "rfind": "rfind(|_| true)", "rfold": "rfold(0u32, |a, _| a)",
            "rposition": "rposition(|_| true)", "find": "find(|_| true)",
            "all": "all(|_| true)", "any": "any(|_| false)", "find_map": "find_map(|x| Some(x))", "fold": "fold(0u32, |a, _| a)",
            "for_each": "for_each(|_| ())", "nth": "nth(1)", "position": "position(|_| true)"}
_DSL_SPUR = {"copied": "copied(1)", "flatten": "flatten(1)", "enumerate": "enumerate(1)", "rev": "rev(1)", "count": "count(1)", "next": "next(1)"}
_CONSUMERS = {"count", "next", "rfind", "rfold", "rposition", "find", "all", "any", "find_map", "fold", "for_each", "nth", "position"}


def _dsl_program(r):
    ms = list(r["methods"])
    # `copied` only type-checks directly on the slice source: other placements are not guard tests
    if "copied" in ms[1:] :
        return None
    # `flatten` needs iterable items: only directly on a nested source
    if "flatten" in ms[1:] or (ms and ms[0] == "copied" and "flatten" in ms):
        return None
    nested = bool(ms) and ms[0] == "flatten"
    parts = []
    for q, mname in enumerate(ms, 1):
        txt = _DSL_TXT[mname]
        if r["spurious"] == q:
            txt = _DSL_SPUR[mname]
        if r["unknown"] == q:
            txt = "frobnicate" + txt[txt.index("("):]
        parts.append(txt)
    has_cons = bool(ms) and ms[-1] in _CONSUMERS
    args = "".join(", " + p for p in parts)
    if has_cons:
        body = "let _ = konst::iter::eval!(&a%s);" % args
    else:
        body = "konst::iter::for_each!{_x in &a%s => }" % args
    src = "[[1u32, 2], [3, 4]]" if nested else "[1u32, 2, 3]"
    return "#![allow(warnings)]\npub fn f() { let a = %s; %s }\n" % (src, body)


_PM_FWD = {  # kind -> (macro fragment list, pattern written with the fragments, arguments)
    "fwd_literal": ("$p:literal", "$p", '"a"'), "fwd_expr_lit": ("$p:expr", "$p", '"a"'),
    "fwd_pat_lit": ("$p:pat", "$p", '"a"'), "fwd_tt_lit": ("$p:tt", "$p", '"a"'),
    "fwd_lit_alt": ("$p:literal, $r:literal", "$p | $r", '"a", "c"'),
    "fwd_range": ("$lo:expr, $hi:expr", "$lo..=$hi", '"a", "z"'), "fwd_range_from": ("$lo:expr", "$lo..", '"a"'),
    "fwd_pat_range": ("$p:pat", "$p", '"a"..="z"'), "fwd_expr_const": ("$p:expr", "$p", "A"),
}


def _pm_fwd_program(r):
    frag, pat, args = _PM_FWD[r["pat"]]
    if r["form"] in ("trim_start_matches", "trim_end_matches"):
        inner = "konst::parser_method!{$q, %s; %s | \"b\"}; 0" % (r["form"], pat)
    elif r["dflt"]:
        inner = "konst::parser_method!{$q, %s; %s => 1, \"b\" => 2, _ => 0}" % (r["form"], pat)
    else:
        inner = "konst::parser_method!{$q, %s; %s => 1, \"b\" => 2}" % (r["form"], pat)
    return ("#![allow(warnings)]\nconst A: &str = \"a\";\nmacro_rules! w { ($q:ident, %s) => { { %s } } }\n"
            "pub fn f(mut p: konst::Parser<'_>) -> u32 { w!(p, %s) }\n" % (frag, inner, args))


def _pm_program(r):
    if r["pat"] in _PM_FWD:
        return _pm_fwd_program(r)
    pat = {"literal": '"a"', "raw": 'r#"a"#', "concat": 'concat!("a", "c")', "stringify": "stringify!(a)",
           "ident": "A", "expr": '("a")', "range": '"a"..="z"', "range_from": '"a"..', "char": "'a'", "bytes": 'b"a"',
           "int": "5", "path": "K::A", "binding": 'x @ "a"', "ref": '&"a"'}[r["pat"]]
    if r["form"] in ("trim_start_matches", "trim_end_matches"):
        call = "konst::parser_method!{p, %s; %s | \"b\"}; 0" % (r["form"], pat)
    elif r["dflt"]:
        call = "konst::parser_method!{p, %s; %s => 1, \"b\" => 2, _ => 0}" % (r["form"], pat)
    else:
        call = "konst::parser_method!{p, %s; %s => 1, \"b\" => 2}" % (r["form"], pat)
    return ("#![allow(warnings)]\nconst A: &str = \"a\";\nstruct K; impl K { const A: &'static str = \"a\"; }\n"
            "pub fn f(mut p: konst::Parser<'_>) -> u32 { %s }\n" % call)


def _verdict_items(run):
    import gen_destructure as gd
    items = []      # (tag, src, expected verdict, rec)
    out, descs = _destructure_descs(run, run.tier)
    for k, r in enumerate(descs):
        flavors = ["plain", "typed"] + (["typeform"] if r["shape"] == "braced" and r["n"] > 0 else [])
        # the type form with generic arguments in the path (`S<T>, {..}` / `TS<T>, (..)`)
        if r["shape"] in ("braced", "tuple_struct") and r["n"] > 0:
            flavors.append("generic")
        for fl in flavors:
            # the annotated form of a reference / wrong arity is a different misuse (type mismatch): still Rejected
            items.append(("d%d_%s" % (k, fl), gd.verdict_program(r, fl), r["verdict"], dict(r, flavor=fl, mac="destructure!")))
            if r["isref"] and fl == "typed":
                # the annotation may also name the reference type itself
                for rm in (False, True):
                    items.append(("d%d_typedref_%d" % (k, rm), gd.verdict_program(r, "typed_ref", refmut=rm), r["verdict"],
                                  dict(r, flavor="typed_ref/" + ("&mut" if rm else "&"), mac="destructure!")))
            if r["isref"]:
                # a `&mut` reference is a reference too
                items.append(("d%d_%s_mut" % (k, fl), gd.verdict_program(r, fl, refmut=True), r["verdict"],
                              dict(r, flavor=fl + "/&mut", mac="destructure!")))
    gout = vec("C17-MacroGuards.ndjson")
    run.mc("MC_MacroGuards", "MacroGuards.cfg" if run.tier == "quick" else "MacroGuards.thorough.cfg", env={"OUT": gout}, heap="6g", timeout=1800)
    for k, l in enumerate(open(gout)):
        r = json.loads(l)
        if r["kind"] == "dsl":
            src = _dsl_program(r)
            if src is None:
                continue
            items.append(("i%d" % k, src, r["verdict"], dict(r, mac="iter-dsl")))
        else:
            items.append(("p%d" % k, _pm_program(r), r["verdict"], dict(r, mac="parser_method!")))
    return items


@check("C17", rule="one program per descriptor: every destructure! descriptor of Destructure.tla (accepted and each misuse: "
                    "Drop type, reference, wrong field/element count, `..` in struct/tuple, two rests) in plain, annotated "
                    "and type-alias form; every DSL invocation of MacroGuards.tla (two reversing methods, unknown method, "
                    "argument to an argument-less method, and the valid controls); every parser_method! form x pattern kind "
                    "x default; rustc's accept/reject verdict is compared with the model's; non-trivial = a misuse program "
                    "or its valid control")
def c17(run):
    import progs
    items = _verdict_items(run)
    res = progs.verdicts([(t, s) for t, s, _, _ in items])
    n_rej = n_acc = 0
    for tag, src, exp, rec in items:
        ok, msg = res[tag]
        got = "Accepted" if ok else "Rejected"
        run.programs += 1
        run.replay_checks += 1
        key = "verdict:" + rec["mac"]
        run.per_op[key] = run.per_op.get(key, 0) + 1
        n_rej += exp == "Rejected"
        n_acc += exp == "Accepted"
        if got != exp:
            run.add_violation({"kind": "program", "records": [rec],
                               "detail": {"variant": key + (":misuse-compiles" if exp == "Rejected" else ":control-rejected"),
                                          "got": got + (" " + msg if msg else ""), "exp": exp, "rec": rec, "verdict": 1, "src": src}})
    log_line = "  verdicts: %d programs judged by rustc (%d expected rejections, %d valid controls)" % (len(items), n_rej, n_acc)
    core.log(log_line)
    run.samples.append({"program": items[len(items) // 3][1], "expected": items[len(items) // 3][2]})
    run.extra["expected_rejections"] = n_rej
    run.extra["valid_controls"] = n_acc
    run.assumptions += ["the deciding observation is rustc's verdict on generated programs; diagnostics text is not compared",
                        "a valid control that rustc rejects is reported like a violation (it means the macro rejects a "
                        "correct program, or the generator is wrong)"]


def replay_verdict(run, doc):
    import progs
    d = doc["first"]["detail"]
    ok, msg = progs.rustc_verdict(d["src"], "replay")
    got = "Accepted" if ok else "Rejected"
    if got != d["exp"]:
        run.add_violation({"kind": "program", "records": doc["records"], "detail": dict(d, got=got + " " + msg)})


# ------------------------------------------------------------------------------------------- C01
_C01_MODELS = [  # (MC module, cfg, emits?)
    ("MC_SliceIndex", "SliceIndex.quick.cfg"), ("MC_StrIndex", "StrIndex.quick.cfg"),
    ("MC_StripTrim", "StripTrim.c01.cfg"), ("MC_CStr", "CStr.quick.cfg"), ("MC_Chars", "Chars.c01.cfg"),
    ("MC_SliceIter", "SliceIter.c01.cfg"), ("MC_Split", "Split.c01.cfg"), ("MC_Parser", "Parser.c01.cfg"),
    ("MC_Ownership", "Ownership.n2.cfg"), ("MC_Cmp", "Cmp.c01.cfg"), ("MC_ParseInt", "ParseInt.c01.cfg"),
    ("MC_RangeIter", "RangeIter.char.cfg"), ("MC_Mem", "Mem.n2.cfg"),
]


@check("C01", rule="behaviours = the union of the vector / state-graph sets of the slice, string, search, trim, split, "
                    "chars, slice-iterator, range, parser, comparison, CStr and ownership models (small configurations), "
                    "(1) replayed natively with address-range / UTF-8 / char-boundary / drop-ledger monitors on every "
                    "returned slice or str, (2) a stratified sample replayed under Miri, (3) a sample re-expressed as const "
                    "items evaluated by rustc's const evaluator; plus the unsafe-precondition invariants of the models; "
                    "non-trivial = the call returns a non-empty sub-slice or moves a value")
def c01(run):
    import random
    import progs
    import gen_consteval as gc
    q = run.tier == "quick"
    files = {}
    for mod, cfg in _C01_MODELS:
        out = vec("C01-%s.ndjson" % mod[3:])
        if os.path.exists(out):
            os.remove(out)
        run.mc(mod, cfg, env={"OUT": out}, heap="6g", timeout=3000)
        files[mod[3:]] = out
    # Matcher writes one file per operation
    import glob
    mo = vec("C01-Matcher")
    for f in glob.glob(mo + "-*.ndjson"):
        os.remove(f)
    run.mc("MC_Matcher", "Matcher.c01.cfg", env={"OUT": mo}, heap="6g", timeout=3000)
    with open(vec("C01-Matcher.ndjson"), "w") as fh:
        for f in sorted(glob.glob(mo + "-*.ndjson")):
            fh.write(open(f).read())
    files["Matcher"] = vec("C01-Matcher.ndjson")
    # ArrayBuild: assume_init precondition (no emission needed here)
    about = vec("C01-ArrayBuild.ndjson")
    if os.path.exists(about):
        os.remove(about)
    run.mc("MC_ArrayBuild", "ArrayBuild.cfg", env={"OUT": about}, heap="2g", timeout=600)
    run.mc("MC_Concat", "Concat.quick.cfg", env={"OUT": vec("C01-Concat.ndjson")}, heap="2g", timeout=600)
    run.sample_file(files["SliceIndex"], k=2)
    # (1) native replay with monitors
    run.replay(list(files.values()), "native replay with monitors")
    # (2) Miri on a stratified sample: per module, a seeded sample of lines
    rnd = random.Random(run.seed)
    per = 120 if q else 500
    shard_dir = os.path.join(WORK, "vec", "miri")
    os.makedirs(shard_dir, exist_ok=True)
    picked = []
    for name, path in files.items():
        lines = open(path).readlines()
        if name == "Parser":
            lines = [l for l in lines if len(l) < 40000]
        rnd.shuffle(lines)
        picked += lines[:per if name != "Parser" else per // 6]
    rnd.shuffle(picked)
    nsh = 14
    shards = []
    for k in range(nsh):
        f = os.path.join(shard_dir, "shard-%d.ndjson" % k)
        with open(f, "w") as fh:
            fh.writelines(picked[k::nsh])
        shards.append(f)
    sums, fails = core.miri_replay(shards, shards=nsh)
    mlines = sum(s["lines"] for s in sums)
    mchecks = sum(s["checks"] for s in sums)
    core.log("  miri   %d behaviours / %d calls interpreted without undefined behaviour (%d shards, %d failed)"
             % (mlines, mchecks, len(shards), len(fails)))
    run.extra["miri_behaviours"] = mlines
    run.extra["miri_comparisons"] = mchecks
    for s in sums:
        for mm in s["mismatches"]:
            run.add_violation({"kind": "vector", "detail": dict(mm, variant="miri:" + str(mm.get("variant"))), "records": [mm.get("rec")]})
    for f, rc, out in fails:
        ub = "Undefined Behavior" in out or "error: " in out
        if rc == 124 and not ub:
            # the interpreter ran out of its time budget on this shard (machine load): nothing was observed for it
            run.notes["miri shard timed out (its behaviours were not interpreted)"] = run.notes.get("miri shard timed out (its behaviours were not interpreted)", 0) + 1
            core.log("  miri   shard %s timed out - not counted" % os.path.basename(f))
            continue
        if not ub:
            raise core.ToolError("Miri run failed without a diagnosis (rc=%s):\n%s" % (rc, out))
        # find the record: re-run that shard with progress output
        rec = {"shard": f}
        run.add_violation({"kind": "vector", "records": [json.loads(l) for l in open(f).readlines()][:1],
                           "detail": {"variant": "miri:undefined-behaviour", "monitor": core.tail(out, 12), "rec": rec}})
    # (2b) the array-building macros with hostile closures: an array with an unwritten slot is a read of
    # uninitialised memory (the programs of C11, judged here for C01's "no uninitialised read")
    adescs = {}
    for l in open(about):
        r = json.loads(l)
        adescs[(r["form"], r["n"], r["exit"], r["pos"])] = r
    _arraybuild_programs(run, adescs, "C01-arraybuild").execute()
    _arraybuild_programs(run, adescs, "C01-arraybuild-release", debug_assertions=False).execute()
    # (3) const evaluation of the const-fn surface
    ps = progs.ProgSet(run, "C01-consteval")
    import re as _re

    def p8(v):
        v = int(v)
        if v <= 60:
            return v
        if v <= 127:
            return (2**63 - 1) - (127 - v)
        if v <= 190:
            return 2**63 + (v - 128)
        return (2**64 - 1) - (255 - v)
    budget = {"Matcher": 400, "StripTrim": 400, "StrIndex": 400, "SliceIndex": 400, "CStr": 150, "ParseInt": 300,
              "Split": 300, "Chars": 300}
    for name, cap in budget.items():
        lines = open(files[name]).readlines()
        rnd.shuffle(lines)
        n = 0
        for l in lines:
            r = json.loads(l)
            if name == "Matcher":
                c = gc.matcher(r)
            elif name == "StripTrim":
                c = gc.striptrim(r)
            elif name == "StrIndex":
                c = gc.strindex(r, p8)
            elif name == "SliceIndex":
                c = [gc.sliceindex(r, p8), gc.sliceindex_mut(r, p8, "u64"), gc.sliceindex_mut(r, p8, "u8")]
            elif name == "ParseInt":
                c = gc.parseint(r)
            elif name == "Split":
                c = gc.split_const(r)
            elif name == "Chars":
                c = gc.chars_const(r)
            else:
                c = gc.cstr(r)
            for cc in (c if isinstance(c, list) else [c]):
                if cc is None:
                    continue
                ps.add(cc[0], cc[1], dict(r, mac="const-eval:" + name))
                n += 1
            if n >= (cap if q else cap * 5):
                break
    ps.execute()
    run.assumptions += [BOUNDED, "freedom from undefined behaviour is established for the replayed behaviours (Miri's and the "
                        "const evaluator's model of UB is trusted) and, at design level, for the bounded models whose unsafe "
                        "preconditions are TLC invariants", "unsafe fns of konst::{ptr, maybe_uninit, manually_drop} are outside "
                        "the property's 'safe API' scope"]
