"""./check selftest — demonstrates that the specification is bound to the code and that its invariants are not
vacuous: (1) spec-level mutations (legacy algorithms, removed guards) must be refuted by TLC, (2) a corrupted /
truncated recorded trace must be rejected at the right event, (3) summary of the seeded code changes
(seeded/*/meta.json).  Not part of the registered commands."""
import json
import os
import random

import core


def run():
    out = ["# Self-test results", ""]
    ok_all = True
    out.append("## 1. Spec-level mutations (expected: TLC reports the named invariant violated)")
    out.append("")
    cases = [
        ("spec/legacy", "MatcherLegacy", "MatcherLegacy.cfg", "Refines", "pre-F1 restart-on-first-byte matcher"),
        ("spec/legacy", "ParserTrimLegacy", "ParserTrimLegacy.cfg", "OffsetInv", "pre-F3 Parser::trim offset update"),
        ("spec/legacy", "CmpLegacy", "CmpLegacy.cfg", "Refines", "pre-F4 length-first slice ordering"),
        ("spec", "ArrayBuild", "legacy/ArrayBuild.unguarded.cfg", "AssumePre", "array macros without the i == len / is_full asserts"),
        ("spec", "ArrayBuild", "legacy/ArrayBuild.aliased.cfg", "AssumePre", "pre-F12 from_fn!: a `ref mut` closure parameter aliases the loop counter"),
        ("spec/mc", "MC_Destructure", "../legacy/Destructure.NoDropGuard.cfg", "LedgerOK", "destructure! without the Drop assertion"),
        ("spec/mc", "MC_Destructure", "../legacy/Destructure.NoTypeGuard.cfg", "LedgerOK", "destructure! without the reference assertion"),
        ("spec/mc", "MC_Destructure", "../legacy/Destructure.NoFieldGuard.cfg", "LedgerOK", "destructure! without the exhaustive field pattern"),
    ]
    for d, mod, cfg, inv, what in cases:
        r = core.run_tlc(os.path.join(core.VERIF, d), mod, cfg, timeout=600, env={"OUT": "/dev/null"}, tag="selftest-" + mod + os.path.basename(cfg))
        good = (not r["ok"]) and inv in r["invariant_violated"]
        ok_all &= good
        out.append("- %s: %s -> %s" % (what, cfg, "refuted (%s violated)" % inv if good else "NOT REFUTED (unexpected)"))
    out.append("")
    out.append("## 2. Trace corruption (expected: rejected exactly at the corrupted event)")
    out.append("")
    core.build_harness()
    base = os.path.join(core.WORK, "trace", "_selftest.ndjson")
    core.kh_record("Parser", 4242, 1200, base)
    lines = open(base).readlines()
    rnd = random.Random(7)
    # a) corrupt start_offset of one successful event
    cands = [i for i, l in enumerate(lines) if '"ok":1' in l.replace(" ", "")]
    k = cands[len(cands) // 2]
    ev = json.loads(lines[k])
    ev["st"]["so"] += 1
    ev["st"]["eo"] += 1
    bad = lines[:k] + [json.dumps(ev) + "\n"] + lines[k + 1:]
    p1 = base + ".corrupt"
    open(p1, "w").writelines(bad)
    r = core.run_tlc(os.path.join(core.SPEC, "trace"), "Trace_Parser", "Trace_Parser.cfg", env={"TRACE": p1}, workers=1,
                     trace_mode=True, heap="2g", coverage=False, tag="selftest-trace1")
    flat = " ".join(r["out"].split())
    import re
    m = re.search(r'"TRACE-REJECTED at event", (\d+),', flat)
    good = (not r["ok"]) and m and int(m.group(1)) == k + 1
    ok_all &= bool(good)
    out.append("- start_offset of event %d incremented by one -> %s" % (k + 1, "rejected at event %s" % m.group(1) if m else "NOT rejected"))
    # b) delete one successful event that changed the state
    # a non-idempotent call (repeating it would not mask its absence) that moved the start of the remainder
    def movable(i):
        e = json.loads(lines[i])
        prev = json.loads(lines[max(j for j in cands if j < i)])
        return (e["ev"] in ("skip", "split", "strip_prefix", "find_skip", "parse_u8", "parse_i8") and e["ok"] == 1
                and "st" in prev and e["st"]["lo"] != prev["st"]["lo"] and '"init"' not in lines[i + 1])
    k2 = next(i for i in cands if i > k and movable(i))
    p2 = base + ".deleted"
    open(p2, "w").writelines(lines[:k2] + lines[k2 + 1:])
    r = core.run_tlc(os.path.join(core.SPEC, "trace"), "Trace_Parser", "Trace_Parser.cfg", env={"TRACE": p2}, workers=1,
                     trace_mode=True, heap="2g", coverage=False, tag="selftest-trace2")
    good = not r["ok"]
    ok_all &= good
    out.append("- event %d (a state-changing call) deleted -> %s" % (k2 + 1, "rejected" if good else "NOT rejected"))
    # c) the unmodified trace is accepted
    r = core.run_tlc(os.path.join(core.SPEC, "trace"), "Trace_Parser", "Trace_Parser.cfg", env={"TRACE": base}, workers=1,
                     trace_mode=True, heap="2g", coverage=False, tag="selftest-trace3")
    ok_all &= r["ok"]
    out.append("- the unmodified trace (%d events) -> %s" % (len(lines), "accepted" if r["ok"] else "REJECTED (unexpected)"))
    out.append("")
    out.append("## 3. Seeded code changes (from seeded/*/meta.json)")
    out.append("")
    out.append("| seed | breaks | detected by | first evidence |")
    out.append("|---|---|---|---|")
    sd = os.path.join(core.VERIF, "seeded")
    for s in sorted(os.listdir(sd)):
        mp = os.path.join(sd, s, "meta.json")
        if not os.path.exists(mp):
            continue
        meta = json.load(open(mp))
        det = meta.get("detected_by", {})
        cell = ", ".join("%s: %s" % (p, "DETECTED" if v.get("detected") else ("tool error" if v.get("rc") == 2 else "missed")) for p, v in det.items()) or "not run"
        first = ""
        for v in det.values():
            if v.get("first"):
                mm = re.search(r'"variant": "([^"]+)"', v["first"])
                first = mm.group(1) if mm else ""
        out.append("| %s | %s | %s | %s |" % (s, meta.get("breaks_property"), cell, first))
    os.makedirs(os.path.join(core.VERIF, "selftest"), exist_ok=True)
    open(os.path.join(core.VERIF, "selftest", "RESULTS.md"), "w").write("\n".join(out) + "\n")
    print("\n".join(out))
    return 0 if ok_all else 1
