"""C11 programs: array::map!/map_!/from_fn!/from_fn_! with closures that leave by break/continue/return/panic,
collect_const!, and ArrayBuilder misuse."""

EXIT_STMT = {"Break": "break;", "Continue": "continue;", "Return": "return None;", "Panic": 'panic!("closure panic");'}
ENDING_PRINT = {"value": None, "panic": "PANIC", "left": "None", "loop": "TIMEOUT"}


def cases(desc):
    """Yield (body, exp, rec, isolate, hostile) for one ArrayBuild descriptor."""
    form, n, ex, pos, ending = desc["form"], desc["n"], desc["exit"], desc["pos"], desc["ending"]
    hostile = ending != "value"
    if form == "collect":
        vals = [3 * i + 1 for i in range(n)]
        body = ("const A: [u32; %d] = konst::iter::collect_const!(u32 => &[%s], copied(), map(|x| x * 2)); format!(\"{:?}\", A)"
                % (n, ", ".join("%du32" % v for v in vals)) if n > 0 else
                "const A: [u32; 0] = konst::iter::collect_const!(u32 => 0u32..0); format!(\"{:?}\", A)")
        yield body, str([2 * v for v in vals]), dict(desc, mac="collect_const!", elem="u32"), False, False
        return
    macs = ["map!", "from_fn!"] if form == "map" else ["map_!", "from_fn_!"]
    for mac in macs:
        for elem in ("copy", "noncopy"):
            exit_code = "" if ex == "Val" else "if IDX == %d { %s }" % (pos, EXIT_STMT[ex])
            if elem == "copy":
                ty, mk, res = "u32", lambda i: "%du32" % (10 + i), lambda i: str((10 + i) * 2)
                conv = "x * 2"
            else:
                ty, mk, res = "String", lambda i: 'String::from("s%d")' % i, lambda i: '"s%d!"' % i
                conv = 'format!("{}!", x)'
            expv = "Some([%s])" % ", ".join(res(i) for i in range(n))
            # the exit is keyed on the element itself (the closure leaves every time it sees element `pos`)
            here = ("x == %d" % (10 + pos)) if elem == "copy" else ('x.as_str() == "s%d"' % pos)
            ecode = "" if ex == "Val" else "if %s { %s }" % (here, EXIT_STMT[ex])
            if mac == "map!":
                # map! borrows the array: non-Copy elements need a `ref` pattern
                pat = "ref x" if elem == "noncopy" else "x"
                call = "konst::array::map!(arr, |%s| { %s %s })" % (pat, ecode, conv)
                pre = "let arr: [%s; %d] = [%s];" % (ty, n, ", ".join(mk(i) for i in range(n)))
            elif mac == "map_!":
                call = "konst::array::map_!(arr, |x| { %s %s })" % (ecode, conv)
                pre = "let arr: [%s; %d] = [%s];" % (ty, n, ", ".join(mk(i) for i in range(n)))
            else:
                m = "from_fn" if mac == "from_fn!" else "from_fn_"
                gen = "(10 + i as u32) * 2" if elem == "copy" else 'format!("s{}!", i)'
                call = "konst::array::%s!(|i| { %s %s })" % (m, exit_code.replace("IDX", "i"), gen)
                pre = ""
            oty = "u32" if elem == "copy" else "String"
            body = ("fn inner() -> Option<[%s; %d]> { %s let out: [%s; %d] = %s; Some(out) } format!(\"{:?}\", inner())"
                    % (oty, n, pre, oty, n, call))
            exp = expv if not hostile else ENDING_PRINT[ending]
            yield body, exp, dict(desc, mac="array::" + mac, elem=elem), ending == "loop" or (hostile and ex == "Continue"), hostile


def builder_cases():
    """ArrayBuilder over- / under-filling and order (runtime and const)."""
    out = []
    for n in range(0, 4):
        for pushes in range(0, n + 2):
            body = ("let mut b = konst::array::ArrayBuilder::<u32, %d>::new(); %s let a = b.build(); format!(\"{:?}\", a)"
                    % (n, " ".join("b.push(%d);" % (7 * i + 1) for i in range(pushes))))
            exp = str([7 * i + 1 for i in range(n)]) if pushes == n else "PANIC"
            out.append((body, exp, {"m": "ArrayBuild", "mac": "ArrayBuilder", "n": n, "pushes": pushes}))
        # over-filling push whose panic is caught: the builder must be left as it was (still full, same contents, buildable)
        vals = [7 * i + 1 for i in range(n)]
        body = ("let mut b = konst::array::ArrayBuilder::<u32, %d>::new(); %s "
                "let r = std::panic::catch_unwind(std::panic::AssertUnwindSafe(|| b.push(99))); "
                "let r2 = std::panic::catch_unwind(std::panic::AssertUnwindSafe(|| b.push(98))); "
                "format!(\"{} {} {} {} {:?} {:?}\", r.is_err(), r2.is_err(), b.len(), b.is_full(), b.as_slice().to_vec(), b.build())"
                % (n, " ".join("b.push(%d);" % v for v in vals)))
        out.append((body, "true true %d true %s %s" % (n, str(vals), str(vals)),
                    {"m": "ArrayBuild", "mac": "ArrayBuilder(over-push caught)", "n": n}))
        body = ("const fn f() -> [u32; %d] { let mut b = konst::array::ArrayBuilder::new(); let mut i = 0u32; while (i as usize) < %d { b.push(i * 3); i += 1; } b.build() } "
                "const A: [u32; %d] = f(); format!(\"{:?}\", A)" % (n, n, n))
        out.append((body, str([3 * i for i in range(n)]), {"m": "ArrayBuild", "mac": "ArrayBuilder(const fn)", "n": n}))
    return out


def byval_ledger_cases(desc):
    """C15: map_! / from_fn_! with drop-ledger elements; the per-id drop counts after the run (and after the caller
    dropped whatever was returned) are compared with the ledger of ArrayBuild.tla.  Ids: inputs 1..n in array order,
    outputs n+1.. in the order the closure produced them (from_fn_!: outputs 1..)."""
    n, ex, pos, pushed = desc["n"], desc["exit"], desc["pos"], desc["pushed"]
    if desc["form"] != "map_byval" or desc["pc"] not in ("finished", "left", "panicked"):
        return
    for mac in ("map_!", "from_fn_!"):
        if mac == "map_!":
            ecode = "" if ex == "Val" else "if x.id == %d { %s }" % (pos + 1, EXIT_STMT[ex])
            pre = "let arr: [L; %d] = [%s];" % (n, ", ".join(["L::new()"] * n))
            call = "konst::array::map_!(arr, |x| { %s let _consumed = x; L::new() })" % ecode
            exp = list(desc["din"]) + list(desc["dout"])[:pushed]
        else:
            ecode = "" if ex == "Val" else "if i == %d { %s }" % (pos, EXIT_STMT[ex])
            pre = ""
            call = "konst::array::from_fn_!(|i| { %s L::new() })" % ecode
            exp = list(desc["dout"])[:pushed]
        body = ("reset(); fn inner() -> Option<[L; %d]> { %s let out: [L; %d] = %s; Some(out) } "
                "let r = std::panic::catch_unwind(inner); let ending = match &r { Ok(Some(_)) => \"value\", Ok(None) => \"left\", Err(_) => \"panic\" }; "
                "drop(r); format!(\"{};{:?}\", ending, counts())" % (n, pre, n, call))
        yield body, "%s;%s" % (desc["ending"], str(exp)), dict(desc, mac="array::%s (drop ledger)" % mac)


def stateful_closure_cases():
    """C11: closures with state (a running counter) - the macros must call the closure once per element, in index
    order, exactly like <[T; N]>::map / core::array::from_fn with the same closure."""
    out = []
    for n in range(0, 5):
        arr = "[%s]" % ", ".join("%du32" % (10 * (i + 1)) for i in range(n))
        for mac, kcall, scall in (
            ("map!", "konst::array::map!(arr, |x| { c += 1; x * 100 + c })", "arr.map(|x| { c += 1; x * 100 + c })"),
            ("map_!", "konst::array::map_!(arr, |x| { c += 1; x * 100 + c })", "arr.map(|x| { c += 1; x * 100 + c })"),
            ("from_fn!", "konst::array::from_fn!(|i| { c += 1; i as u32 * 100 + c })", "core::array::from_fn(|i| { c += 1; i as u32 * 100 + c })"),
            ("from_fn_!", "konst::array::from_fn_!(|i| { c += 1; i as u32 * 100 + c })", "core::array::from_fn(|i| { c += 1; i as u32 * 100 + c })"),
        ):
            body = ("let arr: [u32; %d] = %s; let mut c = 0u32; let k: [u32; %d] = %s; let kc = c; let mut c = 0u32; let s: [u32; %d] = %s; "
                    "format!(\"{:?} {} {}\", k, kc, k == s && kc == c)" % (n, arr, n, kcall, n, scall))
            if "from_fn" in mac:
                exp = "%s %d true" % (str([i * 100 + i + 1 for i in range(n)]), n)
            else:
                exp = "%s %d true" % (str([10 * (i + 1) * 100 + i + 1 for i in range(n)]), n)
            out.append((body, exp, {"m": "ArrayBuild", "mac": "array::%s (stateful closure)" % mac, "n": n}))
    return out


def param_pattern_cases():
    """C11 / C01: the closure parameter pattern (plain, mut, ref, ref mut) binds a copy of the index (from_fn) or the
    element (map); the loop counter is not reachable from the closure, so the array is always completely written.
    `ref mut` forms may be rejected by rustc (allowed outcome)."""
    out = []
    n = 4
    arr = "[%s]" % ", ".join("%dusize" % (10 * (i + 1)) for i in range(n))
    idx = list(range(n))
    el = [10 * (i + 1) for i in range(n)]
    table = [
        ("from_fn!", "konst::array::from_fn!(|i| i * 2)", [2 * i for i in idx], False),
        ("from_fn!", "konst::array::from_fn!(|mut i| { i += 1; i })", [i + 1 for i in idx], False),
        ("from_fn!", "konst::array::from_fn!(|ref i| *i * 2)", [2 * i for i in idx], False),
        ("from_fn!", "konst::array::from_fn!(|ref mut i| { *i += 1; *i })", [i + 1 for i in idx], True),
        ("from_fn!", "konst::array::from_fn!(|ref mut i| { *i += 1; 7 })", [7] * n, True),
        ("from_fn_!", "konst::array::from_fn_!(|i| i * 2)", [2 * i for i in idx], False),
        ("from_fn_!", "konst::array::from_fn_!(|mut i| { i += 1; i })", [i + 1 for i in idx], False),
        ("from_fn_!", "konst::array::from_fn_!(|ref mut i| { *i += 1; *i })", [i + 1 for i in idx], True),
        ("map!", "konst::array::map!(arr, |x| x + 1)", [x + 1 for x in el], False),
        ("map!", "konst::array::map!(arr, |mut x| { x += 1; x })", [x + 1 for x in el], False),
        ("map!", "konst::array::map!(arr, |ref x| *x + 1)", [x + 1 for x in el], False),
        ("map!", "konst::array::map!(arr, |ref mut x| { *x += 1; *x })", [x + 1 for x in el], True),
        ("map_!", "konst::array::map_!(arr, |x| x + 1)", [x + 1 for x in el], False),
        ("map_!", "konst::array::map_!(arr, |mut x| { x += 1; x })", [x + 1 for x in el], False),
        ("map_!", "konst::array::map_!(arr, |ref mut x| { *x += 1; *x })", [x + 1 for x in el], True),
        # other spellings of the closure argument: typed parameter, explicit return type, function path
        ("from_fn!", "konst::array::from_fn!(|i: usize| i * 2)", [2 * i for i in idx], False),
        ("from_fn!", "konst::array::from_fn!(|i| -> usize { i * 2 })", [2 * i for i in idx], False),
        ("from_fn!", "konst::array::from_fn!(dbl)", [2 * i for i in idx], False),
        ("from_fn_!", "konst::array::from_fn_!(|i: usize| i * 2)", [2 * i for i in idx], False),
        ("from_fn_!", "konst::array::from_fn_!(|i| -> usize { i * 2 })", [2 * i for i in idx], False),
        ("from_fn_!", "konst::array::from_fn_!(dbl)", [2 * i for i in idx], False),
        ("map!", "konst::array::map!(arr, |x: usize| x + 1)", [x + 1 for x in el], False),
        ("map!", "konst::array::map!(arr, |x| -> usize { x + 1 })", [x + 1 for x in el], False),
        ("map!", "konst::array::map!(arr, inc)", [x + 1 for x in el], False),
        ("map_!", "konst::array::map_!(arr, |x: usize| x + 1)", [x + 1 for x in el], False),
        ("map_!", "konst::array::map_!(arr, |x| -> usize { x + 1 })", [x + 1 for x in el], False),
        ("map_!", "konst::array::map_!(arr, inc)", [x + 1 for x in el], False),
    ]
    for mac, call, exp, may_reject in table:
        body = ("const fn dbl(i: usize) -> usize { i * 2 } const fn inc(x: usize) -> usize { x + 1 } "
                "let arr: [usize; %d] = %s; let _ = &arr; let out: [usize; %d] = %s; format!(\"{:?}\", out)" % (n, arr, n, call))
        out.append((body, str(exp), {"m": "ArrayBuild", "mac": "array::%s (parameter pattern)" % mac, "call": call}, may_reject))
    return out
