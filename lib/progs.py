"""Program generation (PG): descriptors emitted by TLC are turned into Rust programs that use the real
konst macros; the programs are compiled against /repo's working tree and run, and what they print is
compared with the specification's expectation.  Also: single-program rustc verdicts (accept / reject)."""
import glob
import json
import os
import re
import shutil
import subprocess
import time
from concurrent.futures import ThreadPoolExecutor

import threading

import core
from core import WORK, ToolError, log

_LOCK = threading.Lock()     # result accounting of program sets compiled in parallel


class _TargetLock:
    """Exclusive use of a cargo target directory from the build until the binary has been copied out of it: program
    sets of different checks (which may run at the same time) share target directories, and all binaries are `kprog`."""

    def __init__(self, tdir):
        self.tdir = tdir

    def __enter__(self):
        import fcntl
        os.makedirs(self.tdir, exist_ok=True)
        self.f = open(os.path.join(self.tdir, ".verif-lock"), "w")
        fcntl.flock(self.f, fcntl.LOCK_EX)
        return self

    def __exit__(self, *a):
        import fcntl
        fcntl.flock(self.f, fcntl.LOCK_UN)
        self.f.close()

FEATURES = '["rust_1_83", "alloc", "cmp", "iter", "parsing_proc"]'


def target_dir():
    return os.path.join(WORK, "target-prog")


# A user trait that offers slice-like methods on arrays with wrong answers.  Method syntax on an array (`arr.len()`)
# finds such a trait method before it reaches the slice method, so a macro expansion that uses method syntax on a
# caller-provided array is hijacked by it (finding F13).  Added to the prelude of the macro program sets.
HOSTILE_PRELUDE = (
    "pub trait HostileArrayMethods { fn len(&self) -> usize { 0 } fn is_empty(&self) -> bool { true } "
    "fn first(&self) -> Option<&u8> { None } fn last(&self) -> Option<&u8> { None } } "
    "impl<T, const N: usize> HostileArrayMethods for [T; N] {} "
)


def rust_str(b):
    """Rust string literal for the UTF-8 bytes b (escapes everything non-alphanumeric)."""
    s = bytes(b).decode("utf-8")
    out = []
    for ch in s:
        if ch.isascii() and (ch.isalnum() or ch in " ,-_"):
            out.append(ch)
        else:
            out.append("\\u{%x}" % ord(ch))
    return '"' + "".join(out) + '"'


def rust_char(b):
    s = bytes(b).decode("utf-8")
    assert len(s) == 1
    return "'\\u{%x}'" % ord(s)


def rust_bytes(b):
    return "&[" + ", ".join("%du8" % x for x in b) + "]"


class ProgSet:
    """A set of cases compiled into one crate: each case is one line `fn case_k() -> String { .. }`."""

    SHARD = 1600             # cases per crate: rustc's front end is single-threaded per crate

    def __init__(self, run, name, prelude="", debug_assertions=True):
        self.run, self.name, self.prelude = run, name, prelude
        # False: the caller's crate is built like a release build (no debug assertions / overflow checks): macros expand
        # in the caller's crate, so a `debug_assert!` inside an expansion disappears there
        self.debug_assertions = debug_assertions
        self.cases = []          # (body, exp_str, rec)
        self.opts = {}
        self.tdir = None         # own target directory (shards)

    def add(self, body, exp, rec, isolate=False, accept=None):
        """exp: expected printed value.  isolate: run the case in its own process under a timeout (its expected
        value may be "TIMEOUT").  accept: optional predicate(got) overriding the equality with exp."""
        self.cases.append((body, exp, rec))
        self.opts[len(self.cases) - 1] = (isolate, accept)

    def _write(self, d, live):
        os.makedirs(os.path.join(d, "src"), exist_ok=True)
        with open(os.path.join(d, "Cargo.toml"), "w") as f:
            f.write('[package]\nname = "kprog"\nversion = "0.1.0"\nedition = "2021"\n\n[workspace]\n\n'
                    '[dependencies]\nkonst = { path = "%s/konst", default-features = false, features = %s }\n\n'
                    '[profile.dev]\ndebug = false\nopt-level = 0\ncodegen-units = 16\nincremental = false\n%s'
                    % (core.REPO, FEATURES, "" if self.debug_assertions else "debug-assertions = false\noverflow-checks = false\n"))
        os.makedirs(os.path.join(d, ".cargo"), exist_ok=True)
        with open(os.path.join(d, ".cargo", "config.toml"), "w") as f:
            f.write('[net]\noffline = true\n[build]\ntarget-dir = "%s"\n' % (self.tdir or target_dir()))
        lock = os.path.join("/repo", "Cargo.lock")
        if os.path.exists(lock):
            shutil.copy(lock, os.path.join(d, "Cargo.lock"))
        lines = ["#![allow(warnings)]", "use std::panic::{catch_unwind, AssertUnwindSafe};", self.prelude.replace("\n", " ")]
        # a case usually is one line; bodies containing newlines (line continuations inside literals) span several
        idx = []           # (first line, last line, case index)
        cur = len(lines) + 1
        for k in live:
            text = "fn case_%d() -> String { %s }" % (k, self.cases[k][0])
            nl = text.count("\n") + 1
            lines.append(text)
            idx.append((cur, cur + nl - 1, k))
            cur += nl
        lines.append("fn main() { std::panic::set_hook(Box::new(|_| {})); let only: Option<usize> = std::env::args().nth(1).map(|x| x.parse().unwrap()); "
                     "let skip: &[usize] = &[%s]; let cases: &[(usize, fn() -> String)] = &[%s]; "
                     "for (i, f) in cases { if let Some(o) = only { if o != *i { continue; } } else if skip.contains(i) { continue; } "
                     "let r = catch_unwind(AssertUnwindSafe(|| f())).unwrap_or_else(|_| String::from(\"PANIC\")); "
                     "println!(\"{}\\t{}\", i, r); } }" % (", ".join(str(k) for k in live if self.opts.get(k, (False, None))[0]),
                                                            ", ".join("(%d, case_%d)" % (k, k) for k in live)))
        with open(os.path.join(d, "src", "main.rs"), "w") as f:
            f.write("\n".join(lines) + "\n")
        return idx

    def execute(self, timeout=1800):
        """Compile + run; returns number of cases executed. Mismatches / compile failures become violations.
        Large sets are split into crates of SHARD cases compiled in parallel (each with its own target directory)."""
        if not self.debug_assertions and self.tdir is None:
            self.tdir = os.path.join(WORK, "target-prog-nodebug")
        if len(self.cases) > self.SHARD and self.tdir in (None, os.path.join(WORK, "target-prog-nodebug")):
            shards = []
            for k in range(0, len(self.cases), self.SHARD):
                sh = ProgSet(self.run, "%s-s%d" % (self.name, k // self.SHARD), self.prelude, self.debug_assertions)
                sh.cases = self.cases[k:k + self.SHARD]
                sh.opts = {i - k: self.opts[i] for i in range(k, min(k + self.SHARD, len(self.cases))) if i in self.opts}
                sh.tdir = os.path.join(WORK, "target-prog-shard-%d%s" % (k // self.SHARD % 4, "" if self.debug_assertions else "-nodebug"))
                shards.append(sh)
            t0 = time.time()
            # four lanes; shards of one lane share a target directory (konst is built once per lane)
            lanes = [shards[i::4] for i in range(4)]

            def lane(ls):
                return sum(s.execute(timeout) for s in ls)
            with ThreadPoolExecutor(4) as ex:
                n = sum(ex.map(lane, lanes))
            log("  programs %-22s %6d cases in %d crates, %.1fs" % (self.name, n, len(shards), time.time() - t0))
            return n
        run = self.run
        d = os.path.join(WORK, "prog", self.name + ("-%d" % os.getpid() if self.name.startswith("_") else ""))
        shutil.rmtree(d, ignore_errors=True)
        live = list(range(len(self.cases)))
        e = dict(os.environ)
        e["CARGO_NET_OFFLINE"] = "true"
        t0 = time.time()
        with _TargetLock(self.tdir or target_dir()):
            live, p = self._build(d, live, e, timeout)
            exe = os.path.join(d, "kprog-bin")
            shutil.copy2(os.path.join(self.tdir or target_dir(), "debug", "kprog"), exe)
        try:
            return self._run_built(d, exe, live, p, timeout, t0)
        finally:
            if self.name.startswith("_"):
                shutil.rmtree(d, ignore_errors=True)

    def _build(self, d, live, e, timeout):
        run = self.run
        for attempt in range(6):
            idx = self._write(d, live)
            p = subprocess.run(["timeout", str(timeout), "cargo", "build", "--offline"], cwd=d, env=e,
                               stdout=subprocess.PIPE, stderr=subprocess.STDOUT, text=True)
            if p.returncode == 0:
                break
            # which cases do not compile?  every case is exactly one line of src/main.rs
            bad = set()
            level = ""
            for ol in p.stdout.splitlines():
                if ol.startswith("error"):
                    level = "error"
                elif ol.startswith("warning"):
                    level = "warning"
                m = re.search(r"--> src/main\.rs:(\d+):\d+", ol)
                if m and level == "error":
                    ln = int(m.group(1))
                    for (a, b, k) in idx:
                        if a <= ln <= b:
                            bad.add(k)
            if not bad:
                raise ToolError("generated program set %s does not compile and no case could be blamed:\n%s"
                                % (self.name, core.tail(p.stdout, 60)))
            for k in sorted(bad):
              with _LOCK:
                body, exp, rec = self.cases[k]
                msg = re.search(r"error(\[E\d+\])?: [^\n]*", p.stdout)
                acc = self.opts.get(k, (False, None))[1]
                if acc is not None and acc("COMPILE-ERROR"):
                    run.notes["case rejected at compile time (allowed outcome)"] = run.notes.get("case rejected at compile time (allowed outcome)", 0) + 1
                    continue
                run.add_violation({"kind": "program", "records": [rec],
                                   "detail": {"variant": "prog:%s:does-not-compile" % rec.get("mac", self.name),
                                              "got": "COMPILE-ERROR " + (msg.group(0)[:200] if msg else ""),
                                              "exp": exp, "rec": rec, "body": body, "prelude": self.prelude}})
            live = [k for k in live if k not in bad]
        else:
            raise ToolError("program set %s: still failing to compile after removing bad cases" % self.name)
        return live, p

    def _run_built(self, d, exe, live, p, timeout, t0):
        q = subprocess.run(["timeout", str(timeout), exe], stdout=subprocess.PIPE, stderr=subprocess.PIPE, text=True,
                           errors="replace", preexec_fn=core._limits)
        got = {}
        for line in q.stdout.splitlines():
            if "\t" in line:
                a, b = line.split("\t", 1)
                got[int(a)] = b
        # isolated cases: one process each, under a timeout (non-termination is an observable outcome)
        iso = [k for k in live if self.opts.get(k, (False, None))[0]]

        def one(k):
            r = subprocess.run(["timeout", "3", exe, str(k)], stdout=subprocess.PIPE, stderr=subprocess.PIPE, text=True, errors="replace",
                               preexec_fn=core._limits)
            if r.returncode == 124 and self.cases[k][1] != "TIMEOUT":
                # not expected to hang: rule out a loaded machine before calling it non-termination
                r = subprocess.run(["timeout", "30", exe, str(k)], stdout=subprocess.PIPE, stderr=subprocess.PIPE, text=True,
                                   errors="replace", preexec_fn=core._limits)
            if r.returncode == 124:
                return k, "TIMEOUT"
            for line in r.stdout.splitlines():
                if "\t" in line:
                    return k, line.split("\t", 1)[1]
            return k, "NO-OUTPUT(process rc=%s)" % r.returncode
        with ThreadPoolExecutor(8) as ex:
            for k, g in ex.map(one, iso):
                got[k] = g
        with _LOCK:
            return self._account(live, got, q, t0)

    def _account(self, live, got, q, t0):
        run = self.run
        n = 0
        for k in live:
            body, exp, rec = self.cases[k]
            g = got.get(k, "NO-OUTPUT(process rc=%s)" % q.returncode)
            acc = self.opts.get(k, (False, None))[1]
            if acc is not None:
                n += 1
                run.replay_checks += 1
                key = "prog:" + str(rec.get("mac", self.name))
                run.per_op[key] = run.per_op.get(key, 0) + 1
                if not acc(g):
                    run.add_violation({"kind": "program", "records": [rec],
                                       "detail": {"variant": key, "got": g, "exp": exp, "rec": rec, "body": body,
                                                  "prelude": self.prelude}})
                elif g != exp:
                    run.notes["impl_model_drift: allowed outcome differs from the model's prediction"] = \
                        run.notes.get("impl_model_drift: allowed outcome differs from the model's prediction", 0) + 1
                continue
            n += 1
            run.replay_checks += 1
            key = "prog:" + str(rec.get("mac", self.name))
            run.per_op[key] = run.per_op.get(key, 0) + 1
            if g != exp:
                run.add_violation({"kind": "program", "records": [rec],
                                   "detail": {"variant": key, "got": g, "exp": exp, "rec": rec, "body": body,
                                              "prelude": self.prelude}})
        run.programs += n
        log("  programs %-22s %6d cases compiled+run in %.1fs (%d did not compile)" %
            (self.name, n, time.time() - t0, len(self.cases) - len(live)))
        return n


# --------------------------------------------------------------------------- rustc verdicts
_RLIB = {}


def konst_rlib():
    """Build (once per run) a tiny crate against /repo's konst and return (rlib, deps dir)."""
    if "v" in _RLIB:
        return _RLIB["v"]

    class _R:
        replay_checks = 0
        programs = 0
        per_op = {}

        def add_violation(self, v):
            raise ToolError("probe program failed: %s" % v)
    ps = ProgSet(_R(), "_probe")
    ps.add('format!("{:?}", konst::string::find("ab", "b"))', "Some(1)", {"mac": "probe"})
    ps.execute()
    deps = os.path.join(target_dir(), "debug", "deps")
    libs = sorted(glob.glob(os.path.join(deps, "libkonst-*.rlib")), key=os.path.getmtime)
    if not libs:
        raise ToolError("libkonst rlib not found under " + deps)
    _RLIB["v"] = (libs[-1], deps)
    return _RLIB["v"]


def rustc_verdict(src, tag):
    """Does this single program compile against the real crate?  -> (accepted: bool, first error line)."""
    rlib, deps = konst_rlib()
    d = os.path.join(WORK, "prog", "_verdict-%d" % os.getpid())
    os.makedirs(d, exist_ok=True)
    path = os.path.join(d, tag + ".rs")
    with open(path, "w") as f:
        f.write(src)
    p = subprocess.run(["rustc", "--edition", "2021", "--crate-type", "lib", "--emit=metadata", "-A", "warnings",
                        "--extern", "konst=" + rlib, "-L", "dependency=" + deps, "-o",
                        os.path.join(d, tag + ".rmeta"), path],
                       stdout=subprocess.PIPE, stderr=subprocess.STDOUT, text=True)
    m = re.search(r"error(\[E\d+\])?: [^\n]*", p.stdout)
    return p.returncode == 0, (m.group(0)[:200] if m else "")


def verdicts(items, workers=12):
    """items: list of (tag, src) -> dict tag -> (accepted, msg)"""
    konst_rlib()
    with ThreadPoolExecutor(workers) as ex:
        res = list(ex.map(lambda it: (it[0], rustc_verdict(it[1], it[0])), items))
    shutil.rmtree(os.path.join(WORK, "prog", "_verdict-%d" % os.getpid()), ignore_errors=True)
    return dict(res)


def replay_program(run, doc):
    """Re-run the program(s) of a replay file."""
    recs = doc["records"]
    first = doc.get("first", {}).get("detail", {})
    if first.get("body") is not None and "verdict" not in first:
        ps = ProgSet(run, "_replay", prelude=first.get("prelude", ""))
        for v in doc.get("all", [doc["first"]]):
            dd = v["detail"]
            ps.add(dd["body"], dd["exp"], dd["rec"])
        ps.execute()
    else:
        import props
        props.replay_verdict(run, doc)
