"""Program generator for destructure! descriptors emitted by MC_Destructure (C15 accepted cases are run
with a drop-ledger element type; C17 uses the same programs for rustc accept/reject verdicts)."""

LEDGER_PRELUDE = (
    "use std::cell::RefCell; "
    "thread_local! { static LEDGER: RefCell<Vec<u32>> = RefCell::new(Vec::new()); } "
    "pub struct L { id: u32, payload: [u8; 12] } "
    "fn payload_of(id: u32) -> [u8; 12] { let mut p = [0u8; 12]; let mut k = 0; while k < 12 { p[k] = (id as u8).wrapping_mul(31).wrapping_add(k as u8 * 7) ^ 0x5A; k += 1; } p } "
    "impl L { pub fn new() -> L { let id = LEDGER.with(|l| { let mut l = l.borrow_mut(); l.push(0); l.len() as u32 }); L { id, payload: payload_of(id) } } "
    "pub fn intact(&self) -> bool { let p = self.payload; p == payload_of(self.id) } } "
    "impl Drop for L { fn drop(&mut self) { let id = self.id; LEDGER.with(|l| { let mut l = l.borrow_mut(); let i = id as usize; if i >= 1 && i <= l.len() { l[i - 1] += 1; } }); } } "
    "fn reset() { LEDGER.with(|l| l.borrow_mut().clear()); } "
    "fn dropped_now() -> Vec<usize> { LEDGER.with(|l| l.borrow().iter().enumerate().filter(|x| *x.1 == 1).map(|x| x.0 + 1).collect()) } "
    "fn counts() -> Vec<u32> { LEDGER.with(|l| l.borrow().clone()) } "
    "fn all_once() -> bool { LEDGER.with(|l| l.borrow().iter().all(|x| *x == 1)) } "
)


MUT_BINDINGS = False      # flavour "mutbind": every binding is written `mut aK`


def pattern_list(r):
    """(pattern text pieces, binding expressions yielding Vec<u32> of ids + intact flags)"""
    pats, binds = [], []
    for q, p in enumerate(r["pats"]):
        if p == "b":
            pats.append(("mut a%d" if MUT_BINDINGS else "a%d") % q)
            binds.append("ids.push(a%d.id); ok &= a%d.intact();" % (q, q))
        elif p == "u":
            pats.append("_")
        elif p == "r":
            pats.append("r%d @ .." % q)
            binds.append("for x in r%d.iter() { ids.push(x.id); ok &= x.intact(); }" % q)
        elif p == "d":
            pats.append("..")
    return pats, binds


def make(r, flavor="plain", elem="L", mk="L::new()", refmut=False):
    """Returns (items, stmt, binds): type declarations, the let+destructure! statement, binding observers."""
    global MUT_BINDINGS
    sh, n = r["shape"], r["n"]
    MUT_BINDINGS = flavor == "mutbind"
    pats, binds = pattern_list(r)
    MUT_BINDINGS = False
    ref = ("&mut " if refmut else "&") if r["isref"] else ""
    items = ""
    ann = ""
    if sh == "braced":
        generic = flavor == "generic"
        packed = "#[repr(packed)] " if flavor == "packed" else ""
        fty = "T" if generic else elem
        items = "%sstruct S%s { %s }" % (packed, "<T>" if generic else "", ", ".join("f%d: %s" % (i, fty) for i in range(n)))
        if r["isdrop"]:
            items += " impl%s Drop for S%s { fn drop(&mut self) {} }" % ("<T>" if generic else "", "<T>" if generic else "")
        val = "S { %s }" % ", ".join("f%d: %s" % (i, mk) for i in range(n))
        # listed fields: the first len(pats) field names; an extra listed field does not exist
        fields = ", ".join("f%d: %s" % (i, p) for i, p in enumerate(pats))
        head = ("S<%s>, " % elem) if flavor in ("generic", "typeform") else "S "
        if flavor == "typeform" and not generic:
            head = "self::Alias, "
            items += " type Alias = S;"
        if flavor in ("typed", "typed_ref"):
            ann = ": S"
        stmt = "let v = %s; konst::destructure!{%s{%s}%s = %sv}" % (val, head, fields, ann, ref)
    elif sh == "tuple_struct":
        generic = flavor == "generic"
        fty = "T" if generic else elem
        items = "%sstruct T%s(%s);" % ("#[repr(packed)] " if flavor == "packed" else "", "<U>" if False else ("<T>" if generic else ""), ", ".join([fty] * n))
        if r["isdrop"]:
            items += " impl%s Drop for T%s { fn drop(&mut self) {} }" % ("<T>" if generic else "", "<T>" if generic else "")
        if generic:
            items = items.replace("struct T<T>", "struct TS<T>").replace("for T<T>", "for TS<T>")
            name = "TS"
        else:
            items = items.replace("struct T(", "struct TS(").replace("for T ", "for TS ")
            name = "TS"
        val = "%s(%s)" % (name, ", ".join([mk] * n))
        head = ("%s<%s>, " % (name, elem)) if generic else name
        if flavor in ("typed", "typed_ref"):
            ann = ": %s" % name
        stmt = "let v = %s; konst::destructure!{%s(%s)%s = %sv}" % (val, head, ", ".join(pats), ann, ref)
    elif sh == "tuple":
        val = "(%s%s)" % (", ".join([mk] * n), "," if n == 1 else "")
        ptxt = ", ".join(pats) + ("," if len(pats) == 1 else "")
        if flavor in ("typed", "typed_ref"):
            ann = ": (%s%s)" % (", ".join([elem] * n), "," if n == 1 else "")
        stmt = "let v = %s; konst::destructure!{(%s)%s = %sv}" % (val, ptxt, ann, ref)
    else:
        val = "[%s]" % ", ".join([mk] * n)
        if flavor in ("typed", "typed_ref") or n == 0:
            ann = ": [%s; %d]" % (elem, n)
        if r["isref"] and flavor != "typed_ref":
            ann = ""
        stmt = "let v: [%s; %d] = %s; konst::destructure!{[%s]%s = %sv}" % (elem, n, val, ", ".join(pats), ann, ref)
    if refmut and r["isref"]:
        stmt = stmt.replace("let v", "let mut v", 1)
    if flavor == "typed_ref" and r["isref"]:
        # the annotation names the reference type itself (`(a,): &mut (T,) = &mut v`)
        rk = "&mut " if refmut else "&"
        import re as _re
        if ann:
            k = stmt.rfind(ann + " = ")
            stmt = stmt[:k] + ": %s%s = " % (rk, ann[2:]) + stmt[k + len(ann) + 3:]
    return items, stmt, binds


def runtime_case(r, flavor="plain"):
    """One-line body for an Accepted descriptor: reports bound ids, ids dropped at once, final ledger."""
    items, stmt, binds = make(r, flavor)
    body = ("reset(); let mut ids: Vec<u32> = Vec::new(); let mut ok = true; let now; { %s %s; now = dropped_now(); %s } "
            "format!(\"bound={:?};dropped={:?};final={};intact={}\", ids, now, all_once(), ok)"
            % (items, stmt, " ".join(binds)))
    exp = "bound=%s;dropped=%s;final=true;intact=true" % (str(list(r["bound"])), str(list(r["dropped"])))
    return body, exp


def const_case(r, flavor="plain"):
    """The same destructuring inside a const fn over u8 fields (const evaluation of the unsafe reads).
    Packed flavour: u64 fields in a #[repr(packed)] struct, whose allocation has alignment 1 — the const
    evaluator rejects an aligned read of such a field, whatever address the value happens to have natively."""
    items, stmt, _ = make(r, flavor, elem="u64" if flavor == "packed" else "u8", mk="7")
    sums = []
    for q, p in enumerate(r["pats"]):
        if p == "b":
            sums.append("s += a%d as u32;" % q)
        elif p == "r":
            # (through a slice: the program set's prelude has a hostile `len` for arrays)
            sums.append("{ let rs: &[_] = &r%d; let mut i = 0; while i < rs.len() { s += rs[i] as u32; i += 1; } }" % q)
    nb = len(r["bound"])
    body = "%s const fn f() -> u32 { %s; let mut s = 0u32; %s s } const V: u32 = f(); format!(\"{}\", V)" % (items, stmt, " ".join(sums))
    return body, str(7 * nb)


def verdict_program(r, flavor="plain", refmut=False):
    items, stmt, _ = make(r, flavor, elem="String", mk="String::new()", refmut=refmut)
    return "#![allow(warnings)]\n%s\npub fn f() { %s; }\n" % (items, stmt)
