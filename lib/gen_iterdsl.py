"""C10 programs: one Rust function per (chain, consumer) descriptor emitted by MC_IterDsl; it evaluates the konst
macro and the identical std chain on every input and prints both."""
import json

INPUTS = [[], [1], [1, 2, 3, 4], [3, 1, 2], [2, 4, 6, 8, 5], [2, 2, 2]]
U = ("u",)


def ty_after(ty, a):
    k = a["k"]
    if k == "enumerate":
        return ("p", U, ty)
    if k == "zip":
        return ("p", ty, U)
    if k in ("map", "map_s", "filter_map", "flat_map", "flatten"):
        return U
    return ty


class Names:
    def __init__(self):
        self.n = 0

    def fresh(self):
        self.n += 1
        return "v%d" % self.n


def pat_key(ty, names):
    if ty[0] == "u":
        v = names.fresh()
        return v, "(%s as u64)" % v
    pl, kl = pat_key(ty[1], names)
    pr, kr = pat_key(ty[2], names)
    return "(%s, %s)" % (pl, pr), "(31 * %s + %s + 7)" % (kl, kr)


def rust_ty(ty, first_usize=False):
    if ty[0] == "u":
        return "u64"
    # enumerate's index is usize
    l = rust_ty(ty[1])
    return "(%s, %s)" % (l, rust_ty(ty[2]))


SPELL_FNS = ("const fn sp_even(x: &u64) -> bool { *x % 2 == 0 } const fn sp_add1(x: u64) -> u64 { x + 1 } "
             "const fn sp_third(x: u64) -> Option<u64> { if x % 3 == 0 { None } else { Some(x) } } "
             "const fn sp_pair(x: u64) -> std::ops::Range<u64> { x..x + 2 } "
             "const fn sp_lt2(x: &u64) -> bool { *x < 2 } const fn sp_lt3(x: &u64) -> bool { *x < 3 } "
             "const fn sp_even_v(x: u64) -> bool { x % 2 == 0 } const fn sp_fold(acc: u64, e: u64) -> u64 { (acc * 3 + e) % 1000003 } ")


def spelled(k, n, mode):
    """the closure of adapter k (on scalar items) in another spelling: 1 typed parameter, 2 return type + block, 3 function"""
    table = {
        "filter": ("filter(|v: &u64| *v % 2 == 0)", "filter(|&v| -> bool { v % 2 == 0 })", "filter(sp_even)"),
        "map": ("map(|v: u64| v + 1)", "map(|v| -> u64 { v + 1 })", "map(sp_add1)"),
        "filter_map": ("filter_map(|v: u64| { if v % 3 == 0 { None } else { Some(v) } })",
                       "filter_map(|v| -> Option<u64> { if v % 3 == 0 { None } else { Some(v) } })", "filter_map(sp_third)"),
        "flat_map": ("flat_map(|v: u64| { v..v + 2 })", "flat_map(|v| -> std::ops::Range<u64> { v..v + 2 })", "flat_map(sp_pair)"),
        "skip_while": ("skip_while(|v: &u64| *v < 2)", "skip_while(|&v| -> bool { v < 2 })", "skip_while(sp_lt2)"),
        "take_while": ("take_while(|v: &u64| *v < 3)", "take_while(|&v| -> bool { v < 3 })", "take_while(sp_lt3)"),
    }
    if k == "map" and n != 1:
        return None
    return table[k][mode - 1] if k in table else None


def adapters_text(chain, std, hyg=None, spell=0):
    """comma-separated konst adapters or dotted std adapters; returns (text, final type).
    hyg: name of a caller-side constant used instead of the numeric argument of take / skip (konst side only)"""
    ty = U
    parts = []
    for a in chain:
        k, n = a["k"], a["n"]
        p, key = pat_key(ty, Names())
        if k == "enumerate":
            t = "enumerate()"
        elif k == "filter":
            t = "filter(|&%s| %s %% 2 == 0)" % (p, key)
        elif k == "filter_map":
            t = "filter_map(|%s| { let k = %s; if k %% 3 == 0 { None } else { Some(k) } })" % (p, key)
        elif k == "flat_map":
            t = "flat_map(|%s| { let k = %s; k..k + 2 })" % (p, key)
        elif k == "flatten":
            # the model's "flatten" = map to the range k..k+2, then flatten()
            t = ("map(|%s| { let k = %s; k..k + 2 })" % (p, key)) + (".flatten()" if std else ", flatten()")
        elif k == "map":
            t = "map(|%s| %s + %d)" % (p, key, n)
        elif k == "map_s":
            t = "map(|%s| { cnt%d += 1; %s * 10 + cnt%d })" % (p, len(parts), key, len(parts))
        elif k == "rev":
            t = "rev()"
        elif k == "skip":
            t = "skip(%d)" % n if (std or not hyg) else "skip(%s + %d - %s)" % (hyg, n, hyg)
        elif k == "take":
            t = "take(%d)" % n if (std or not hyg) else "take(%s + %d - %s)" % (hyg, n, hyg)
        elif k == "skip_while":
            t = "skip_while(|&%s| %s < 2)" % (p, key)
        elif k == "take_while":
            t = "take_while(|&%s| %s < 3)" % (p, key)
        elif k == "zip":
            t = "zip(ZO.iter().copied())" if std else "zip(konst::slice::iter_copied(ZO))"
        else:
            raise ValueError(k)
        if spell and not std and ty == U and spelled(k, n, spell):
            t = spelled(k, n, spell)
        parts.append(t)
        ty = ty_after(ty, a)
    return parts, ty


def real_ty(chain):
    """Rust type of the final item (enumerate index is usize)."""
    def go(ty_chain):
        return None
    ty = "u64"
    for a in chain:
        k = a["k"]
        if k == "enumerate":
            ty = "(usize, %s)" % ty
        elif k == "zip":
            ty = "(%s, u64)" % ty
        elif k in ("map", "map_s", "filter_map", "flat_map", "flatten"):
            ty = "u64"
    return ty


def consumer_spelled(cons, mode):
    """consumer closures on scalar items in another spelling (1 typed parameter, 2 return type + block, 3 function)"""
    ev = ("|v: u64| v % 2 == 0", "|v| -> bool { v % 2 == 0 }", "sp_even_v")
    evr = ("|v: &u64| *v % 2 == 0", "|&v| -> bool { v % 2 == 0 }", "sp_even")
    table = {
        "all": ["all(%s)" % x for x in ev], "any": ["any(%s)" % x for x in ev],
        "position": ["position(%s)" % x for x in ev], "rposition": ["rposition(%s)" % x for x in ev],
        "find": ["find(%s)" % x for x in evr], "rfind": ["rfind(%s)" % x for x in evr],
        "find_map": ["find_map(|v: u64| { if v % 3 == 0 { None } else { Some(v) } })",
                     "find_map(|v| -> Option<u64> { if v % 3 == 0 { None } else { Some(v) } })", "find_map(sp_third)"],
        "fold": ["fold(1u64, |acc: u64, e: u64| { (acc * 3 + e) % 1000003 })", "fold(1u64, |acc, e| -> u64 { (acc * 3 + e) % 1000003 })",
                 "fold(1u64, sp_fold)"],
        "rfold": ["rfold(1u64, |acc: u64, e: u64| { (acc * 3 + e) % 1000003 })", "rfold(1u64, |acc, e| -> u64 { (acc * 3 + e) % 1000003 })",
                  "rfold(1u64, sp_fold)"],
    }
    return table[cons][mode - 1] if cons in table else None


def consumer_text(cons, n, ty, std, spell=0):
    if spell and not std and ty == U and consumer_spelled(cons, spell):
        post = ("v", "v") if cons in ("find", "rfind") else None
        return consumer_spelled(cons, spell), post
    p, key = pat_key(ty, Names())
    if cons == "all":
        return "all(|%s| %s %% 2 == 0)" % (p, key), None
    if cons == "any":
        return "any(|%s| %s %% 2 == 0)" % (p, key), None
    if cons == "count":
        return "count()", None
    if cons in ("find", "rfind"):
        return "%s(|&%s| %s %% 2 == 0)" % (cons, p, key), (p, key)
    if cons == "find_map":
        return "find_map(|%s| { let k = %s; if k %% 3 == 0 { None } else { Some(k) } })" % (p, key), None
    if cons in ("fold", "rfold"):
        # (konst's two-parameter closure parser un-parenthesises `(a, b)`; destructure inside the body instead)
        return "%s(1u64, |acc, e| { let %s = e; (acc * 3 + %s) %% 1000003 })" % (cons, p, key), None
    if cons == "next":
        return "next()", (p, key)
    if cons == "nth":
        return "nth(%d)" % n, (p, key)
    if cons in ("nth0", "nth4"):
        return "nth(%s)" % cons[3], (p, key)
    if cons in ("position", "rposition"):
        return "%s(|%s| %s %% 2 == 0)" % (cons, p, key), None
    raise ValueError(cons)


def render(v):
    if isinstance(v, bool):
        return "true" if v else "false"
    if isinstance(v, int):
        return str(v)
    if isinstance(v, list):
        return "[" + ", ".join(render(x) for x in v) + "]"
    if isinstance(v, dict):
        if "none" in v:
            return "None"
        return "Some(%s)" % render(v["some"])
    raise ValueError(v)


def std_guard_applies(r):
    """std itself differs from the property's reference on the two documented exceptions."""
    chain, cons = r["chain"], r["cons"]
    if cons == "rposition":
        return False
    for q, a in enumerate(chain):
        if a["k"] == "enumerate":
            if any(b["k"] == "rev" for b in chain[q + 1:]) or cons in ("rfind", "rfold", "rposition"):
                return False
    return not r["known"]


def has_state(r):
    return any(a["k"] == "map_s" for a in r["chain"])


def case(r, hyg=None, spell=0):
    """-> (body, exp_string, model_string), or None (a closure with state cannot be captured by collect_const!'s const item)"""
    chain, cons, n = r["chain"], r["cons"], r["n"]
    if cons == "collect" and has_state(r):
        return None
    kparts, ty = adapters_text(chain, False, hyg, spell)
    sparts, _ = adapters_text(chain, True)
    p, key = pat_key(ty, Names())
    cnts = " ".join("let mut cnt%d = 0u64;" % q for q, a in enumerate(chain) if a["k"] == "map_s")
    pre = "const ZO: &[u64] = &[10, 20, 30];" + (" const %s: usize = 7;" % hyg if hyg else "") + (" " + SPELL_FNS if spell == 3 else "")
    if cons == "for_each":
        kf = ("fn k(inp: &[u64]) -> String { " + cnts + " let mut out: Vec<u64> = Vec::new(); konst::iter::for_each!{%s in inp, copied()%s => out.push(%s); } format!(\"{:?}\", out) }"
              % (p, "".join(", " + x for x in kparts), key))
        sf = ("fn s(inp: &[u64]) -> String { " + cnts + " let mut out: Vec<u64> = Vec::new(); for %s in inp.iter().copied()%s { out.push(%s); } format!(\"{:?}\", out) }"
              % (p, "".join("." + x for x in sparts), key))
        call = "format!(\"K:{};S:{}\", INS.iter().map(|i| k(i)).collect::<Vec<_>>().join(\"|\"), INS.iter().map(|i| s(i)).collect::<Vec<_>>().join(\"|\"))"
    elif cons == "collect":
        # collect_const! needs a const context: one const item per input
        ks = []
        for idx, inp in enumerate(r.get("ins") or INPUTS):
            lit = "&[%s]" % ", ".join("%du64" % x for x in inp)
            ks.append("{ const I: &[u64] = %s; const A: &[%s] = &konst::iter::collect_const!(%s => I, copied()%s); "
                      "format!(\"{:?}\", A.iter().map(|&%s| %s).collect::<Vec<u64>>()) }"
                      % (lit, real_ty(chain), real_ty(chain), "".join(", " + x for x in kparts), p, key))
        kf = "fn kall() -> String { let v: Vec<String> = vec![%s]; v.join(\"|\") }" % ", ".join(ks)
        sf = ("fn s(inp: &[u64]) -> String { format!(\"{:?}\", inp.iter().copied()%s.map(|%s| %s).collect::<Vec<u64>>()) }"
              % ("".join("." + x for x in sparts), p, key))
        call = "format!(\"K:{};S:{}\", kall(), INS.iter().map(|i| s(i)).collect::<Vec<_>>().join(\"|\"))"
    else:
        ct, post = consumer_text(cons, n, ty, False, spell)
        postk = (".map(|%s| %s)" % post) if post else ""
        cts, posts = consumer_text(cons, n, ty, True)
        postks = (".map(|%s| %s)" % posts) if posts else ""
        kf = ("fn k(inp: &[u64]) -> String { " + cnts + " format!(\"{:?}\", konst::iter::eval!(inp, copied()%s, %s)%s) }"
              % ("".join(", " + x for x in kparts), ct, postk))
        # std: rposition needs the documented semantics only for the guard; it is skipped there
        sf = ("fn s(inp: &[u64]) -> String { " + cnts + " format!(\"{:?}\", inp.iter().copied()%s.%s%s) }"
              % ("".join("." + x for x in sparts), cts, postks))
        call = "format!(\"K:{};S:{}\", INS.iter().map(|i| k(i)).collect::<Vec<_>>().join(\"|\"), INS.iter().map(|i| s(i)).collect::<Vec<_>>().join(\"|\"))"
    ins = "const INS: &[&[u64]] = &[%s];" % ", ".join("&[%s]" % ", ".join("%du64" % x for x in i) for i in (r.get("ins") or INPUTS))
    body = "%s %s %s %s %s" % (pre, ins, kf, sf, call)
    exp = "|".join(render(x) for x in r["exp"])
    model = "|".join(render(x) for x in r["model"])
    return body, exp, model


# ---------------------------------------------------------------------------------------------- other source kinds
USER_PRELUDE = (
    "use konst::iter::{ConstIntoIter, IsIntoIterKind, IsIteratorKind}; "
    "pub struct UserInto(pub &'static [u64]); "
    "impl ConstIntoIter for UserInto { type Kind = IsIntoIterKind; type IntoIter = konst::slice::IterCopied<'static, u64>; type Item = u64; } "
    "impl UserInto { pub const fn const_into_iter(self) -> konst::slice::IterCopied<'static, u64> { konst::slice::iter_copied(self.0) } } "
    "pub struct UserIter { pub s: &'static [u64] } pub struct UserIterRev { pub s: &'static [u64] } "
    "impl ConstIntoIter for UserIter { type Kind = IsIteratorKind; type IntoIter = Self; type Item = u64; } "
    "impl ConstIntoIter for UserIterRev { type Kind = IsIteratorKind; type IntoIter = Self; type Item = u64; } "
    "impl UserIter { "
    "pub const fn next(self) -> Option<(u64, Self)> { match self.s { [x, rem @ ..] => Some((*x, Self { s: rem })), [] => None } } "
    "pub const fn next_back(self) -> Option<(u64, Self)> { match self.s { [rem @ .., x] => Some((*x, Self { s: rem })), [] => None } } "
    "pub const fn rev(self) -> UserIterRev { UserIterRev { s: self.s } } pub const fn copy(&self) -> Self { Self { s: self.s } } } "
    "impl UserIterRev { "
    "pub const fn next(self) -> Option<(u64, Self)> { match self.s { [rem @ .., x] => Some((*x, Self { s: rem })), [] => None } } "
    "pub const fn next_back(self) -> Option<(u64, Self)> { match self.s { [x, rem @ ..] => Some((*x, Self { s: rem })), [] => None } } "
    "pub const fn rev(self) -> UserIter { UserIter { s: self.s } } pub const fn copy(&self) -> Self { Self { s: self.s } } } "
)
def source_expr(kind, inp, idx):
    """-> (const items, source tokens incl. leading adapters) for input `inp`, or None when the kind cannot denote it"""
    lit = ", ".join("%du64" % x for x in inp)
    if kind == "array":
        return "const A%d: [u64; %d] = [%s];" % (idx, len(inp), lit), "&A%d, copied()" % idx
    if kind == "slice_ref":        # ConstIntoIter for &&[T]
        return "const R%d: &[u64] = &[%s];" % (idx, lit), "&R%d, copied()" % idx
    if kind == "array_ref_ref":    # ConstIntoIter for &&[T; N]
        return "const Q%d: &[u64; %d] = &[%s];" % (idx, len(inp), lit), "&Q%d, copied()" % idx
    if kind == "iter_copied":
        return "const I%d: &[u64] = &[%s];" % (idx, lit), "konst::slice::iter_copied(I%d)" % idx
    if kind == "range":
        a = inp[0] if inp else 1
        return "", "%du64..%du64" % (a, a + len(inp))
    if kind == "range_incl":
        a = inp[0] if inp else 1
        return "", "%du64..=%du64" % (a, a + len(inp) - 1) if (inp or a > 0) else None
    if kind == "chars":
        s = "".join("\\u{%x}" % x for x in inp)
        return "const S%d: &str = \"%s\";" % (idx, s), "konst::string::chars(S%d), map(|c| c as u64)" % idx
    if kind == "repeat_take":
        return "", "konst::iter::repeat(%du64), take(%d)" % (inp[0], len(inp))
    if kind == "user_into":
        return "const U%d: &[u64] = &[%s];" % (idx, lit), "UserInto(U%d)" % idx
    if kind == "user_iter":
        return "const W%d: &[u64] = &[%s];" % (idx, lit), "UserIter { s: W%d }" % idx
    return None


def has_rev(r):
    return any(a["k"] == "rev" for a in r["chain"]) or r["cons"] in ("rfind", "rfold", "rposition")


def alt_source_case(r, kind):
    """The same chain started from another kind of source, on the inputs that kind can denote.
    -> (body, exp, model) or None"""
    chain, cons, n = r["chain"], r["cons"], r["n"]
    idxs = [q for q, ks in enumerate(r["srcs"]) if kind in ks]
    # take(k) right after repeat(v) is part of the source: a reversing method later would make it the known shape
    if kind == "repeat_take" and has_rev(r):
        return None
    if has_state(r):
        return None
    if not idxs:
        return None
    kparts, ty = adapters_text(chain, False)
    p, key = pat_key(ty, Names())
    tail = "".join(", " + x for x in kparts)
    pre = "const ZO: &[u64] = &[10, 20, 30];"
    outs = []
    for q in idxs:
        se = source_expr(kind, INPUTS[q], q)
        if se is None:
            return None
        items, src = se
        if cons == "for_each":
            outs.append("{ %s let mut out: Vec<u64> = Vec::new(); konst::iter::for_each!{%s in %s%s => out.push(%s); } format!(\"{:?}\", out) }"
                        % (items, p, src, tail, key))
        elif cons == "collect":
            outs.append("{ %s const A: &[%s] = &konst::iter::collect_const!(%s => %s%s); format!(\"{:?}\", A.iter().map(|&%s| %s).collect::<Vec<u64>>()) }"
                        % (items, real_ty(chain), real_ty(chain), src, tail, p, key))
        else:
            ct, post = consumer_text(cons, n, ty, False)
            postk = (".map(|%s| %s)" % post) if post else ""
            outs.append("{ %s format!(\"{:?}\", konst::iter::eval!(%s%s, %s)%s) }" % (items, src, tail, ct, postk))
    body = "%s let v: Vec<String> = vec![%s]; format!(\"K:{}\", v.join(\"|\"))" % (pre, ", ".join(outs))
    exp = "|".join(render(r["exp"][q]) for q in idxs)
    model = "|".join(render(r["model"][q]) for q in idxs)
    return body, exp, model
