#!/usr/bin/env python3
"""Seeded-change utilities.
  seed.py confirm <worktree> <name> <seed_id> <pid>   confirm a sub-agent's change in its scratch worktree
                                                       (tests still pass, demo fails with / passes without), then
                                                       store it under /verif/seeded/<seed_id>/
  seed.py try <seed_id> [pid ...]                      apply the stored patch to /repo, run the quick checks, undo
"""
import json, os, re, shutil, subprocess, sys, time

VERIF = os.path.dirname(os.path.dirname(os.path.abspath(__file__)))
BASE_FAIL = {"invalid_both", "invalid_end", "invalid_start"}

def sh(cmd, cwd=None, timeout=3600):
    p = subprocess.run(cmd, shell=True, cwd=cwd, stdout=subprocess.PIPE, stderr=subprocess.STDOUT, text=True, timeout=timeout)
    return p.returncode, p.stdout

def nextest(wt):
    rc, out = sh("cargo nextest run --workspace --no-fail-fast --test-threads 8 --offline", cwd=wt)
    m = re.search(r"(\d+) tests run: (\d+) passed(?:, (\d+) failed)?", out)
    fails = set(re.findall(r"FAIL \[[^\]]*\] \(.*?\) \S+ (\S+)", out))
    fails = {f.split("::")[-1] for f in fails}
    return (int(m.group(2)) if m else -1), fails, out

def confirm(wt, name, seed_id, pid):
    src = os.path.join(wt, "seed_out", name)
    patch = os.path.join(src, "patch.diff")
    sh("git checkout -- .", cwd=wt)
    rc, out = sh("git apply " + patch, cwd=wt)
    if rc: print("patch does not apply:", out); return 1
    npass, fails, out = nextest(wt)
    print("with change: %d passed, failing: %s" % (npass, sorted(fails)))
    ok_tests = npass == 247 and fails == BASE_FAIL
    rc_with, out_with = sh("bash run.sh", cwd=src, timeout=1200)
    print("demo with change: rc=%d" % rc_with)
    sh("git checkout -- .", cwd=wt)
    rc_without, out_without = sh("bash run.sh", cwd=src, timeout=1200)
    print("demo without change: rc=%d" % rc_without)
    ok = ok_tests and rc_with != 0 and rc_without == 0
    if not ok:
        print("NOT CONFIRMED"); print(out_with[-1500:]); print(out_without[-1500:]); return 1
    dst = os.path.join(VERIF, "seeded", seed_id)
    shutil.rmtree(dst, ignore_errors=True)
    shutil.copytree(src, dst, ignore=shutil.ignore_patterns("target", "*.lock.bak"))
    notes = open(os.path.join(src, "notes.md")).read() if os.path.exists(os.path.join(src, "notes.md")) else ""
    meta = {"seed_id": seed_id, "breaks_property": pid, "needs_to_manifest": notes[:1500],
            "confirmed": {"when": time.strftime("%Y-%m-%d %H:%M"), "worktree": wt,
                          "nextest_with_change": "%d passed, same 3 baseline failures" % npass,
                          "demo_with_change_rc": rc_with, "demo_without_change_rc": rc_without,
                          "ran": "git apply patch.diff; cargo nextest run --workspace --offline; bash run.sh; git checkout -- .; bash run.sh"},
            "note": "the demo's path dependency points at the scratch worktree %s (removed after confirmation)" % wt,
            "detected_by": {}}
    json.dump(meta, open(os.path.join(dst, "meta.json"), "w"), indent=1)
    print("CONFIRMED ->", dst)
    return 0

def try_scratch(seed_id, pids):
    """Same as try, but on a scratch worktree of /repo with its own work directory (does not touch /repo)."""
    d = os.path.join(VERIF, "seeded", seed_id)
    meta = json.load(open(os.path.join(d, "meta.json")))
    pids = pids or [meta["breaks_property"]]
    wt = "/tmp/seedtry_" + seed_id
    work = "/tmp/seedwork_" + seed_id
    sh("git -C /repo worktree remove --force " + wt)
    rc, out = sh("git -C /repo worktree add -q --detach %s HEAD" % wt)
    if rc: print(out); return 2
    try:
        rc, out = sh("git apply " + os.path.join(d, "patch.diff"), cwd=wt)
        if rc: print("patch does not apply:", out); return 2
        for pid in pids:
            t0 = time.time()
            rc, out = sh("KONST_REPO=%s VERIF_WORK=%s ./check %s --tier quick" % (wt, work, pid), cwd=VERIF, timeout=7200)
            vio = [l for l in out.splitlines() if l.startswith("VIOLATION")]
            first = [l for l in out.splitlines() if "first violation" in l]
            print("%s on %s: rc=%d %s (%.0fs)" % (pid, seed_id, rc, "DETECTED" if rc == 1 and vio else "MISSED" if rc == 0 else "TOOL-ERROR", time.time() - t0), flush=True)
            if first: print("   ", first[0][:300], flush=True)
            if rc == 2: print(out[-1500:])
            meta["detected_by"][pid] = {"rc": rc, "detected": rc == 1 and bool(vio), "first": (first[0][:400] if first else ""),
                                        "when": time.strftime("%Y-%m-%d %H:%M"), "mode": "scratch worktree"}
    finally:
        sh("git -C /repo worktree remove --force " + wt)
        shutil.rmtree(work, ignore_errors=True)
    json.dump(meta, open(os.path.join(d, "meta.json"), "w"), indent=1)
    return 0

def try_seed(seed_id, pids):
    d = os.path.join(VERIF, "seeded", seed_id)
    meta = json.load(open(os.path.join(d, "meta.json")))
    pids = pids or [meta["breaks_property"]]
    rc, out = sh("git -C /repo status --porcelain --untracked-files=no")
    if out.strip(): print("/repo is dirty, refusing"); return 2
    rc, out = sh("git -C /repo apply " + os.path.join(d, "patch.diff"))
    if rc: print("patch does not apply to /repo:", out); return 2
    try:
        for pid in pids:
            t0 = time.time()
            rc, out = sh("./check %s --tier quick" % pid, cwd=VERIF, timeout=7200)
            vio = [l for l in out.splitlines() if l.startswith("VIOLATION")]
            first = [l for l in out.splitlines() if "first violation" in l]
            print("%s on %s: rc=%d %s (%.0fs)" % (pid, seed_id, rc, "DETECTED" if rc == 1 and vio else "MISSED" if rc == 0 else "TOOL-ERROR", time.time() - t0))
            if first: print("   ", first[0][:400])
            if rc == 2: print(out[-1500:])
            meta["detected_by"][pid] = {"rc": rc, "detected": rc == 1 and bool(vio), "first": (first[0][:400] if first else ""),
                                        "when": time.strftime("%Y-%m-%d %H:%M")}
    finally:
        sh("git -C /repo checkout -- .")
    json.dump(meta, open(os.path.join(d, "meta.json"), "w"), indent=1)
    return 0

if __name__ == "__main__":
    if sys.argv[1] == "confirm": sys.exit(confirm(*sys.argv[2:6]))
    if sys.argv[1] == "try": sys.exit(try_seed(sys.argv[2], sys.argv[3:]))
    if sys.argv[1] == "scratch": sys.exit(try_scratch(sys.argv[2], sys.argv[3:]))
