"""C19 programs from MC_OptRes descriptors: option:: / result:: macros in closure and function-path form (with the
std method as sanity guard), try_!/try_opt!, try_rebind!/rebind_if_ok! patterns, min!/max! families."""

def _mm_types():
    out = []
    for bits, u, i in ((8, "u8", "i8"), (16, "u16", "i16"), (32, "u32", "i32"), (64, "u64", "i64"), (128, "u128", "i128")):
        out.append((u, ["0%s" % u, "1%s" % u, "(1%s << %d)" % (u, bits - 1), "%s::MAX" % u]))
        out.append((i, ["%s::MIN" % i, "-1%s" % i, "0%s" % i, "%s::MAX" % i]))
    out.append(("usize", ["0usize", "1usize", "(1usize << (usize::BITS - 1))", "usize::MAX"]))
    out.append(("isize", ["isize::MIN", "-1isize", "0isize", "isize::MAX"]))
    out.append(("char", ["'\\0'", "'a'", "'\\u{D7FF}'", "char::MAX"]))
    out.append(("bool", ["false", "true"]))
    # non-primitive comparable types (lexicographic order: a shorter value may be the greater one)
    out.append(("&[u8]", ["(&[] as &[u8])", "&[1u8, 1]", "&[1u8, 1, 0]", "&[2u8]"]))
    out.append(("&[i8]", ["&[-1i8, 5]", "&[-1i8, 5, 0]", "&[0i8]", "&[1i8]"]))
    out.append(("&[u64]", ["(&[] as &[u64])", "&[256u64, 1]", "&[256u64, 1, 0]", "&[257u64]"]))
    out.append(("&str", ['""', '"a\\u{e9}"', '"a\\u{e9}a"', '"b"']))
    out.append(("&[&str]", ["(&[] as &[&str])", '&["a", "a"]', '&["a", "b"]', '&["b"]']))
    out.append(("[u8; 2]", ["[0u8, 0]", "[0u8, 1]", "[1u8, 0]", "[255u8, 255]"]))
    out.append(("Option<u8>", ["None", "Some(0u8)", "Some(1u8)", "Some(255u8)"]))
    out.append(("std::cmp::Ordering", ["std::cmp::Ordering::Less", "std::cmp::Ordering::Equal", "std::cmp::Ordering::Greater"]))
    return out


MM_TYPES = _mm_types()

PRELUDE = (
    "use std::cell::Cell; thread_local! { static CALLS: Cell<u32> = Cell::new(0); } "
    "fn hit() { CALLS.with(|c| c.set(c.get() + 1)); } fn calls() -> u32 { CALLS.with(|c| c.get()) } fn reset() { CALLS.with(|c| c.set(0)); } "
    "fn f(x: u32) -> u32 { x + 1 } "
    "fn g_opt(x: u32) -> Option<u32> { if x == 1 { None } else { Some(x + 10) } } "
    "fn g_res(x: u32) -> Result<u32, u32> { if x == 1 { Err(50 + x) } else { Ok(x + 10) } } "
    "fn h_res(e: u32) -> Result<u32, u32> { if e == 1 { Ok(60 + e) } else { Err(e + 20) } } "
    "fn pr(x: &u32) -> bool { *x != 1 } "
    "fn fb() -> u32 { hit(); 7 } fn fb_opt() -> Option<u32> { hit(); Some(7) } "
    "fn e100(e: u32) -> u32 { hit(); e + 100 } "
    "#[derive(Debug, Clone, Copy, PartialEq)] struct KI(u32, char); "
    "const fn cmp_ki(a: &KI, b: &KI) -> std::cmp::Ordering { konst::const_cmp!(a.0, b.0) } const fn key_ki(a: &KI) -> u32 { a.0 } "
)


def opt_lit(a):
    return "None::<u32>" if "none" in a else "Some(%du32)" % a["some"]


def res_lit(a):
    return ("Ok::<u32, u32>(%d)" % a["ok"]) if "ok" in a else ("Err::<u32, u32>(%d)" % a["err"])


def render(v):
    if isinstance(v, bool):
        return "true" if v else "false"
    if isinstance(v, int):
        return str(v)
    if isinstance(v, dict):
        if "none" in v:
            return "None"
        if "some" in v:
            return "Some(%s)" % render(v["some"])
        if "ok" in v:
            return "Ok(%s)" % render(v["ok"])
        if "err" in v:
            return "Err(%s)" % render(v["err"])
    if isinstance(v, list):
        return "[" + ", ".join(render(x) for x in v) + "]"
    raise ValueError(v)


OPT = {  # mac -> (closure form args, path form args, std method call)
    "unwrap_or": (["9u32"], None, ".unwrap_or(9u32)"),
    "unwrap_or_else": (["|| { hit(); 7u32 }"], ["fb"], ".unwrap_or_else(|| { hit(); 7u32 })"),
    "ok_or": (["9u32"], None, ".ok_or(9u32)"),
    "ok_or_else": (["|| { hit(); 7u32 }"], ["fb"], ".ok_or_else(|| { hit(); 7u32 })"),
    "map": (["|x| x + 1"], ["f"], ".map(|x| x + 1)"),
    "and_then": (["|x| if x == 1 { None } else { Some(x + 10) }"], ["g_opt"], ".and_then(g_opt)"),
    "or_else": (["|| { hit(); Some(7u32) }"], ["fb_opt"], ".or_else(|| { hit(); Some(7u32) })"),
    "filter": (["|x| *x != 1"], ["pr"], ".filter(|x| *x != 1)"),
}
RES = {
    "unwrap_or": (["9u32"], None, ".unwrap_or(9u32)"),
    "unwrap_or_else": (["|e| { hit(); e + 100 }"], ["e100"], ".unwrap_or_else(|e| { hit(); e + 100 })"),
    "unwrap_err_or_else": (["|x| { hit(); x + 100 }"], ["e100"], None),
    "ok": ([], None, ".ok()"),
    "err": ([], None, ".err()"),
    "map": (["|x| x + 1"], ["f"], ".map(|x| x + 1)"),
    "map_err": (["|e| e + 1"], ["f"], ".map_err(|e| e + 1)"),
    "and_then": (["|x| if x == 1 { Err(50 + x) } else { Ok(x + 10) }"], ["g_res"], ".and_then(g_res)"),
    "or_else": (["|e| if e == 1 { Ok(60 + e) } else { Err(e + 20) }"], ["h_res"], ".or_else(h_res)"),
}


# (the option:: / result:: macros only take `|pattern| expr` closures and paths: typed parameters and `-> T { .. }`
# bodies are rejected by their closure parser, except for the argument-less fallbacks below)
EXTRA_FORMS = {
    ("option", "unwrap_or_else"): [("ret", ["|| -> u32 { hit(); 7u32 }"])],
    ("option", "ok_or_else"): [("ret", ["|| -> u32 { hit(); 7u32 }"])],
}


def cases(r):
    """yield (body, exp, rec)"""
    fam, mac, arg, exp = r["fam"], r["mac"], r["arg"], r["exp"]
    if fam in ("option", "result") and mac not in ("flatten", "copied"):
        table, lit = (OPT, opt_lit(arg)) if fam == "option" else (RES, res_lit(arg))
        clo, path, stdm = table[mac]
        expect = "v=%s;called=%s" % (render(exp["val"]), "true" if exp["called"] else "false")
        forms = [("closure", clo)] + ([("path", path)] if path else [])
        # other spellings of the same closure: typed parameter, explicit return type with a block body
        extra = EXTRA_FORMS.get((fam, mac))
        if extra:
            forms += extra
        for fname, args in forms:
            call = "konst::%s::%s!(%s)" % (fam, mac, ", ".join([lit] + args))
            std = ""
            if stdm:
                std = " reset(); let s = %s%s; let sc = calls() > 0; assert!(format!(\"{:?}\", s) == format!(\"{:?}\", v) && sc == c, \"SPEC-GUARD std={:?} called={}\", s, sc);" % (lit, stdm)
            body = "reset(); let v = %s; let c = calls() > 0;%s format!(\"v={:?};called={}\", v, c)" % (call, std)
            yield body, expect, dict(r, mac="%s::%s!" % (fam, mac), form=fname)
        if r.get("eager"):
            # the by-value fallback is an ordinary argument: evaluated exactly once, used or not (as std's method call does)
            call = "konst::%s::%s!(%s, { hit(); 9u32 })" % (fam, mac, lit)
            std = " reset(); let s = %s%s; assert!(format!(\"{:?}\", s) == format!(\"{:?}\", v), \"SPEC-GUARD std={:?}\", s);" % (lit, stdm.replace("9u32", "{ hit(); 9u32 }"))
            body = "reset(); let v = %s; let c = calls();%s format!(\"v={:?};evaluated={};std_evaluated={}\", v, c, calls())" % (call, std)
            yield body, "v=%s;evaluated=1;std_evaluated=1" % render(exp["val"]), dict(r, mac="%s::%s!" % (fam, mac), form="eager-argument")
    elif mac == "flatten":
        def nl(a):
            if "none" in a:
                return "None::<Option<u32>>"
            return "Some(%s)" % opt_lit(a["some"])
        body = "let v = konst::option::flatten!(%s); format!(\"v={:?};called=false\", v)" % nl(arg)
        yield body, "v=%s;called=false" % render(exp["val"]), dict(r, mac="option::flatten!")
    elif mac == "copied":
        body = "let x = 5u32; let _ = x; let v = konst::option::copied(%s); format!(\"v={:?};called=false\", v)" % (
            "None::<&u32>" if "none" in arg else "Some(&%du32)" % arg["some"])
        yield body, "v=%s;called=false" % render(exp["val"]), dict(r, mac="option::copied")
    elif fam == "rebind":
        n = len(arg)
        # Ok payload: a single value for arity 1, else an n-tuple of distinct values 1..n
        payload = "1u32" if n == 1 else "(%s)" % ", ".join("%du32" % (k + 1) for k in range(n))
        decl, pats, obs = [], [], []
        for k, kind in enumerate(arg):
            if kind == "p":
                decl.append("let mut p%d = 0u32;" % k)
                pats.append("p%d" % k)
                obs.append("p%d" % k)
            elif kind == "l":
                pats.append("let l%d" % k)
                obs.append("l%d" % k)
            elif kind == "t":
                pats.append("let t%d: u32" % k)
                obs.append("t%d" % k)
            else:
                pats.append("_")
                obs.append("0u32")
        single = n == 1
        if single and arg[0] in ("l", "t"):
            return      # `let` patterns only work when destructuring tuples (documented)
        pat = pats[0] if single else "(%s)" % ", ".join(pats)
        expv = render(exp["val"])
        for mname in ("try_rebind", "rebind_if_ok"):
            if mname == "try_rebind":
                body = ("fn inner(r: Result<%s, u8>) -> Result<String, u8> { %s konst::try_rebind!{%s = r} Ok(format!(\"{:?}\", [%s])) } "
                        "format!(\"ok={:?};err={:?}\", inner(Ok(%s)), inner(Err(3)))"
                        % ("u32" if single else "(%s)" % ", ".join(["u32"] * n), " ".join(decl), pat, ", ".join(obs), payload))
                e = 'ok=Ok("%s");err=Err(3)' % expv
            else:
                # variables declared by `let` are only visible inside the macro's trailing block
                body = ("fn inner(r: Result<%s, u8>) -> String { %s let mut seen = String::from(\"skipped\"); konst::rebind_if_ok!{%s = r => seen = format!(\"{:?}\", [%s]); } seen } "
                        "format!(\"ok={};err={}\", inner(Ok(%s)), inner(Err(3)))"
                        % ("u32" if single else "(%s)" % ", ".join(["u32"] * n), " ".join(decl), pat, ", ".join(obs), payload))
                e = "ok=%s;err=skipped" % expv
            yield body, e, dict(r, mac=mname + "!")
    elif fam == "rebind_order":
        n = len(arg)
        payload = "(%s)" % ", ".join("%du32" % (k + 1) for k in range(n))
        pats = [{"p": "p", "x": "arr[p as usize]", "u": "_"}[k] for k in arg]
        expv = render(exp["val"])
        decl = "let mut p = 0u32; let mut arr = [0u32; 4];"
        obs = "p, arr[0], arr[1], arr[2], arr[3]"
        ty = "(%s)" % ", ".join(["u32"] * n)
        body = ("fn inner(r: Result<%s, u8>) -> Result<String, u8> { %s konst::try_rebind!{(%s) = r} Ok(format!(\"{:?}\", [%s])) } "
                "format!(\"{:?}\", inner(Ok(%s)))" % (ty, decl, ", ".join(pats), obs, payload))
        yield body, 'Ok("%s")' % expv, dict(r, mac="try_rebind!(dependent places)")
        body = ("fn inner(r: Result<%s, u8>) -> String { %s let mut seen = String::from(\"skipped\"); konst::rebind_if_ok!{(%s) = r => seen = format!(\"{:?}\", [%s]); } seen } "
                "inner(Ok(%s))" % (ty, decl, ", ".join(pats), obs, payload))
        yield body, expv, dict(r, mac="rebind_if_ok!(dependent places)")
    elif fam == "minmax":
        lk, rk = arg
        l, rr = "KI(%d, 'L')" % lk, "KI(%d, 'R')" % rk
        emin, emax = exp["val"]
        for name, cmin, cmax in (
            ("min!/max!", "konst::min!(%du32, %du32)" % (lk, rk), "konst::max!(%du32, %du32)" % (lk, rk)),
            ("min_by!/max_by!", "konst::min_by!(%s, %s, |a, b| konst::const_cmp!(a.0, b.0)).1" % (l, rr),
             "konst::max_by!(%s, %s, |a, b| konst::const_cmp!(a.0, b.0)).1" % (l, rr)),
            ("min_by_key!/max_by_key!", "konst::min_by_key!(%s, %s, |a| a.0).1" % (l, rr),
             "konst::max_by_key!(%s, %s, |a| a.0).1" % (l, rr)),
        ):
            if name == "min!/max!":
                body = "format!(\"{:?}\", (%s, %s, std::cmp::min(%d, %d), std::cmp::max(%d, %d)))" % (cmin, cmax, lk, rk, lk, rk)
                e = "(%d, %d, %d, %d)" % (min(lk, rk), max(lk, rk), min(lk, rk), max(lk, rk))
            else:
                body = ("let sm = std::cmp::min_by_key(%s, %s, |a| a.0).1; let sx = std::cmp::max_by_key(%s, %s, |a| a.0).1; "
                        "format!(\"{:?}\", (%s, %s, sm, sx))" % (l, rr, l, rr, cmin, cmax))
                e = "('%s', '%s', '%s', '%s')" % (emin, emax, emin, emax)
            yield body, e, dict(r, mac=name)
        # every spelling of the comparator / key argument that the closure parser accepts: typed parameters, an explicit
        # return type with a block body, a function path
        for name, kmin, kmax in (
            ("min_by!/max_by!(typed params)", "konst::min_by!(%s, %s, |a: &KI, b: &KI| konst::const_cmp!(a.0, b.0)).1" % (l, rr),
             "konst::max_by!(%s, %s, |a: &KI, b: &KI| konst::const_cmp!(a.0, b.0)).1" % (l, rr)),
            ("min_by!/max_by!(return type)", "konst::min_by!(%s, %s, |a, b| -> std::cmp::Ordering { konst::const_cmp!(a.0, b.0) }).1" % (l, rr),
             "konst::max_by!(%s, %s, |a, b| -> std::cmp::Ordering { konst::const_cmp!(a.0, b.0) }).1" % (l, rr)),
            ("min_by!/max_by!(function)", "konst::min_by!(%s, %s, cmp_ki).1" % (l, rr), "konst::max_by!(%s, %s, cmp_ki).1" % (l, rr)),
            ("min_by_key!/max_by_key!(typed param)", "konst::min_by_key!(%s, %s, |a: &KI| a.0).1" % (l, rr),
             "konst::max_by_key!(%s, %s, |a: &KI| a.0).1" % (l, rr)),
            ("min_by_key!/max_by_key!(return type)", "konst::min_by_key!(%s, %s, |a| -> u32 { a.0 }).1" % (l, rr),
             "konst::max_by_key!(%s, %s, |a| -> u32 { a.0 }).1" % (l, rr)),
            ("min_by_key!/max_by_key!(function)", "konst::min_by_key!(%s, %s, key_ki).1" % (l, rr), "konst::max_by_key!(%s, %s, key_ki).1" % (l, rr)),
        ):
            body = "format!(\"{:?}\", (%s, %s))" % (kmin, kmax)
            yield body, "('%s', '%s')" % (emin, emax), dict(r, mac=name)
        # the plain macros on every primitive type, the keys mapped to four order-preserving anchor values
        for ty, anchors in MM_TYPES:
            if lk >= len(anchors) or rk >= len(anchors):
                continue
            a, b = anchors[lk], anchors[rk]
            body = ("let (a, b): (%s, %s) = (%s, %s); format!(\"{:?}\", (konst::min!(a, b) == std::cmp::min(a, b), konst::max!(a, b) == std::cmp::max(a, b), "
                    "konst::min!(a, b) == %s, konst::max!(a, b) == %s, "
                    "konst::min_by_key!((a, 'L'), (b, 'R'), |x| x.0).1, konst::max_by_key!((a, 'L'), (b, 'R'), |x| x.0).1, "
                    "konst::min_by!((a, 'L'), (b, 'R'), |x, y| konst::const_cmp!(x.0, y.0)).1, konst::max_by!((a, 'L'), (b, 'R'), |x, y| konst::const_cmp!(x.0, y.0)).1))"
                    % (ty, ty, a, b, anchors[min(lk, rk)], anchors[max(lk, rk)]))
            e = "(true, true, true, true, '%s', '%s', '%s', '%s')" % (emin, emax, emin, emax)
            yield body, e, dict(r, mac="min!/max!/%s" % ty)


def side_effect_cases():
    """Argument expressions with side effects: the macro must evaluate each argument exactly once, like the call of
    the std function (an argument evaluated twice can make the macro return a value std would not)."""
    out = []
    # values independent of the evaluation order (the property does not fix it: max!/max_by_key! evaluate right to left)
    exprs = "{ n += 1; 10u32 }, { n += 1; 23u32 }"
    for mac, stdf, extra_k, extra_s in (
        ("min", "std::cmp::min", "", ""), ("max", "std::cmp::max", "", ""),
        ("min_by_key", "std::cmp::min_by_key", ", |x| *x % 7", ", |x| *x % 7"),
        ("max_by_key", "std::cmp::max_by_key", ", |x| *x % 7", ", |x| *x % 7"),
        ("min_by", "std::cmp::min_by", ", |a, b| konst::const_cmp!(*a, *b)", ", |a: &u32, b: &u32| a.cmp(b)"),
        ("max_by", "std::cmp::max_by", ", |a, b| konst::const_cmp!(*a, *b)", ", |a: &u32, b: &u32| a.cmp(b)"),
    ):
        body = ("let mut n = 0u32; let k = konst::%s!(%s%s); let kn = n; let mut n = 0u32; let s = %s(%s%s); "
                "format!(\"{} {} {} {}\", k, kn, s, n)" % (mac, exprs, extra_k, stdf, exprs, extra_s))
        want = {"min": 10, "max": 23, "min_by_key": 23, "max_by_key": 10, "min_by": 10, "max_by": 23}[mac]
        out.append((body, "%d 2 %d 2" % (want, want), {"m": "OptRes", "mac": "%s!(side-effecting arguments)" % mac}))
    for fam, mac, recv, rest, stdcall, want in (
        ("option", "map", "{ n += 1; Some(n) }", ", |x| x + 1", ".map(|x| x + 1)", "Some(2) 1"),
        ("option", "unwrap_or", "{ n += 1; Some(n) }", ", 9", ".unwrap_or(9)", "1 1"),
        ("option", "and_then", "{ n += 1; Some(n) }", ", |x| Some(x + 1)", ".and_then(|x| Some(x + 1))", "Some(2) 1"),
        ("option", "filter", "{ n += 1; Some(n) }", ", |x| *x == 1", ".filter(|x| *x == 1)", "Some(1) 1"),
        ("result", "map", "{ n += 1; Ok::<u32, u32>(n) }", ", |x| x + 1", ".map(|x| x + 1)", "Ok(2) 1"),
        ("result", "map_err", "{ n += 1; Err::<u32, u32>(n) }", ", |x| x + 1", ".map_err(|x| x + 1)", "Err(2) 1"),
        ("result", "unwrap_or", "{ n += 1; Err::<u32, u32>(n) }", ", 9", ".unwrap_or(9)", "9 1"),
    ):
        body = ("let mut n = 0u32; let k = konst::%s::%s!(%s%s); let kn = n; let mut n = 0u32; let s = (%s)%s; "
                "format!(\"{:?} {} {:?} {}\", k, kn, s, n)" % (fam, mac, recv, rest, recv, stdcall))
        out.append((body, "%s %s" % (want, want), {"m": "OptRes", "mac": "%s::%s!(side-effecting receiver)" % (fam, mac)}))
    return out


DROP_ITEMS = ("use std::sync::atomic::{AtomicU32, Ordering::SeqCst}; static D: AtomicU32 = AtomicU32::new(0); "
              "#[derive(Debug)] struct Dc(u32); impl Drop for Dc { fn drop(&mut self) { D.fetch_add(1, SeqCst); } } ")


def drop_cases():
    """Values that own a resource: a macro call must consume (and drop) exactly what the std method consumes - the
    result's tag is compared and so is the number of destructors that have run once the result is dropped too."""
    S, N = "Some(Dc(1))", "None::<Dc>"
    O, E = "Ok::<Dc, Dc>(Dc(1))", "Err::<Dc, Dc>(Dc(3))"
    rows = []
    for recv in (S, N):
        made = 1 if recv == S else 0
        rows += [
            ("option", "unwrap_or", recv, ", Dc(2)", ".unwrap_or(Dc(2))", made + 1),
            ("option", "unwrap_or_else", recv, ", || Dc(2)", ".unwrap_or_else(|| Dc(2))", 1),
            ("option", "ok_or", recv, ", Dc(2)", ".ok_or(Dc(2))", made + 1),
            ("option", "ok_or_else", recv, ", || Dc(2)", ".ok_or_else(|| Dc(2))", 1),
            ("option", "map", recv, ", |x| Dc(x.0 + 10)", ".map(|x| Dc(x.0 + 10))", 2 * made),
            ("option", "and_then", recv, ", |x| Some(Dc(x.0 + 10))", ".and_then(|x| Some(Dc(x.0 + 10)))", 2 * made),
            ("option", "and_then", recv, ", |x| None::<Dc>", ".and_then(|x| None::<Dc>)", made),
            ("option", "or_else", recv, ", || Some(Dc(2))", ".or_else(|| Some(Dc(2)))", 1),
            ("option", "filter", recv, ", |x| x.0 == 1", ".filter(|x| x.0 == 1)", made),
            ("option", "filter", recv, ", |x| x.0 == 7", ".filter(|x| x.0 == 7)", made),
        ]
    for recv, made in (("Some(Some(Dc(1)))", 1), ("Some(None::<Dc>)", 0), ("None::<Option<Dc>>", 0)):
        rows.append(("option", "flatten", recv, "", ".flatten()", made))
    for recv in (O, E):
        ok = recv == O
        rows += [
            ("result", "unwrap_or", recv, ", Dc(2)", ".unwrap_or(Dc(2))", 2),
            ("result", "unwrap_or_else", recv, ", |e| Dc(e.0 + 10)", ".unwrap_or_else(|e| Dc(e.0 + 10))", 1 if ok else 2),
            ("result", "ok", recv, "", ".ok()", 1),
            ("result", "err", recv, "", ".err()", 1),
            ("result", "map", recv, ", |x| Dc(x.0 + 10)", ".map(|x| Dc(x.0 + 10))", 2 if ok else 1),
            ("result", "map_err", recv, ", |x| Dc(x.0 + 10)", ".map_err(|x| Dc(x.0 + 10))", 1 if ok else 2),
            ("result", "and_then", recv, ", |x| Ok::<Dc, Dc>(Dc(x.0 + 10))", ".and_then(|x| Ok::<Dc, Dc>(Dc(x.0 + 10)))", 2 if ok else 1),
            ("result", "or_else", recv, ", |e| Err::<Dc, Dc>(Dc(e.0 + 10))", ".or_else(|e| Err::<Dc, Dc>(Dc(e.0 + 10)))", 1 if ok else 2),
        ]
    out = []
    # rebind_if_ok! / try_rebind! / try_! / try_opt! moving owning components out of the payload: the hand-written
    # `if let` / `match` / `?` is the reference
    for src, nd in (("Ok::<(Dc, Dc, Dc), Dc>((Dc(3), Dc(4), Dc(5)))", 3), ("Err::<(Dc, Dc, Dc), Dc>(Dc(9))", 1)):
        for pat, ref in (("(a, b, let c)", "(x, y, c)"), ("(a, _, b)", "(x, _, y)"), ("(let c, b, a)", "(c, y, x)"),
                         ("(_, a, _)", "(_, x, _)"), ("(let c: Dc, a, b)", "(c, x, y)")):
            has_b, has_c = "y" in ref, "c" in ref
            tail_k = "format!(\"{:?} {:?}\", a, b)"
            kb = ("let mut a = Dc(1); let mut b = Dc(2); let mut seen = 0; konst::rebind_if_ok!{%s = %s => %s} %s"
                  % (pat, src, "seen = c.0;" if has_c else "seen = 1;", "format!(\"{:?} {:?} {}\", a, b, seen)"))
            sb = ("let mut a = Dc(1); let mut b = Dc(2); let mut seen = 0; if let Ok(%s) = %s { a = x; %s %s } %s"
                  % (ref, src, "b = y;" if has_b else "", "seen = c.0;" if has_c else "seen = 1;",
                     "format!(\"{:?} {:?} {}\", a, b, seen)"))
            drops = 2 + nd
            body = (DROP_ITEMS + "let k = { %s }; let kd = D.swap(0, SeqCst); let s = { %s }; let sd = D.swap(0, SeqCst); "
                    "format!(\"{} {} {} {}\", k == s, kd, sd, %d)" % (kb, sb, drops))
            out.append((body, "true %d %d %d" % (drops, drops, drops),
                        {"m": "OptRes", "mac": "rebind_if_ok!(owning values)", "pat": pat, "src": src}))
            kf = ("fn kf() -> Result<String, Dc> { let mut a = Dc(1); let mut b = Dc(2); konst::try_rebind!{%s = %s} "
                  "Ok(format!(\"{:?} {:?} %s\", a, b%s)) }" % (pat, src, "{:?}" if has_c else "", ", c" if has_c else ""))
            sf = ("fn sf() -> Result<String, Dc> { let mut a = Dc(1); let mut b = Dc(2); let %s = (%s)?; a = x; %s "
                  "Ok(format!(\"{:?} {:?} %s\", a, b%s)) }" % (ref, src, "b = y;" if has_b else "", "{:?}" if has_c else "", ", c" if has_c else ""))
            body = (DROP_ITEMS + kf + " " + sf + " let k = format!(\"{:?}\", kf()); let kd = D.swap(0, SeqCst); "
                    "let s = format!(\"{:?}\", sf()); let sd = D.swap(0, SeqCst); format!(\"{} {} {} {}\", k == s, kd, sd, %d)" % drops)
            out.append((body, "true %d %d %d" % (drops, drops, drops),
                        {"m": "OptRes", "mac": "try_rebind!(owning values)", "pat": pat, "src": src}))
    for v, d0, d1 in (("Ok::<Dc, Dc>(Dc(1))", 1, 1), ("Err::<Dc, Dc>(Dc(3))", 1, 2)):
        for mac_k, mac_s, d in (("konst::try_!(r)", "r?", d0),
                                ("konst::try_!(r, map_err = |e| Dc(e.0 + 10))", "r.map_err(|e| Dc(e.0 + 10))?", d1)):
            body = (DROP_ITEMS + "fn kf(r: Result<Dc, Dc>) -> Result<u32, Dc> { let x = %s; Ok(x.0) } "
                    "fn sf(r: Result<Dc, Dc>) -> Result<u32, Dc> { let x = %s; Ok(x.0) } "
                    "let k = format!(\"{:?}\", kf(%s)); let kd = D.swap(0, SeqCst); let s = format!(\"{:?}\", sf(%s)); "
                    "let sd = D.swap(0, SeqCst); format!(\"{} {} {} {}\", k == s, kd, sd, %d)" % (mac_k, mac_s, v, v, d))
            out.append((body, "true %d %d %d" % (d, d, d), {"m": "OptRes", "mac": "try_!(owning values)", "form": mac_k, "arg": v}))
    for v, d in (("Some(Dc(1))", 1), ("None::<Dc>", 0)):
        body = (DROP_ITEMS + "fn kf(r: Option<Dc>) -> Option<u32> { let x = konst::try_opt!(r); Some(x.0) } "
                "fn sf(r: Option<Dc>) -> Option<u32> { let x = r?; Some(x.0) } "
                "let k = format!(\"{:?}\", kf(%s)); let kd = D.swap(0, SeqCst); let s = format!(\"{:?}\", sf(%s)); "
                "let sd = D.swap(0, SeqCst); format!(\"{} {} {} {}\", k == s, kd, sd, %d)" % (v, v, d))
        out.append((body, "true %d %d %d" % (d, d, d), {"m": "OptRes", "mac": "try_opt!(owning values)", "arg": v}))
    for fam, mac, recv, rest, stdcall, drops in rows:
        body = (DROP_ITEMS + "let k = { let r = konst::%s::%s!(%s%s); format!(\"{:?}\", r) }; let kd = D.swap(0, SeqCst); "
                "let s = { let r = (%s)%s; format!(\"{:?}\", r) }; let sd = D.swap(0, SeqCst); "
                "format!(\"{} {} {} {}\", k == s, kd, sd, %d)" % (fam, mac, recv, rest, recv, stdcall, drops))
        out.append((body, "true %d %d %d" % (drops, drops, drops),
                    {"m": "OptRes", "mac": "%s::%s!(owning values)" % (fam, mac), "recv": recv, "args": rest}))
    return out


def try_cases():
    out = []
    for v in ("Ok::<u32, u8>(5)", "Err::<u32, u8>(9)"):
        out.append(("fn inner(r: Result<u32, u8>) -> Result<u32, u8> { let x = konst::try_!(r); Ok(x + 1) } fn q(r: Result<u32, u8>) -> Result<u32, u8> { let x = r?; Ok(x + 1) } format!(\"{:?}/{:?}\", inner(%s), q(%s))" % (v, v),
                    "Ok(6)/Ok(6)" if v.startswith("Ok") else "Err(9)/Err(9)", {"m": "OptRes", "mac": "try_!", "arg": v}))
        out.append(("fn inner(r: Result<u32, u8>) -> Result<u32, u16> { let x = konst::try_!(r, map_err = |e| e as u16 + 1000); Ok(x + 1) } format!(\"{:?}\", inner(%s))" % v,
                    "Ok(6)" if v.startswith("Ok") else "Err(1009)", {"m": "OptRes", "mac": "try_!(map_err)", "arg": v}))
    for v in ("Some(5u32)", "None::<u32>"):
        out.append(("fn inner(r: Option<u32>) -> Option<u32> { let x = konst::try_opt!(r); Some(x + 1) } fn q(r: Option<u32>) -> Option<u32> { let x = r?; Some(x + 1) } format!(\"{:?}/{:?}\", inner(%s), q(%s))" % (v, v),
                    "Some(6)/Some(6)" if v.startswith("Some") else "None/None", {"m": "OptRes", "mac": "try_opt!", "arg": v}))
    return out
